#!/bin/bash
# tools/mutate.sh <ID> <repo-relative-file> <sed-expr> [more file/sed pairs...]
# Applies a deliberate property-breaking edit through the overlay (patched copy, /repo untouched)
# and runs the check; prints DETECTED / MISSED.
ID="$1"; shift
PD=$(mktemp -d /tmp/verif-mut-XXXX)
while [ $# -ge 2 ]; do
  f="$1"; e="$2"; shift 2
  mkdir -p "$PD/$(dirname "$f")"
  src="/repo/$f"; [ -f "$PD/$f" ] && src="$PD/$f"
  sed -E "$e" "$src" > "$PD/$f.new" && mv "$PD/$f.new" "$PD/$f"
  if cmp -s "/repo/$f" "$PD/$f"; then echo "mutate: sed did not change $f"; rm -rf "$PD"; exit 3; fi
  diff "/repo/$f" "$PD/$f" | head -6
done
out=$(cd /verif && VERIF_DIR_EVID_SKIP=1 ./check "$ID" --patch-dir "$PD" 2>&1)
rc=$?
echo "$out" | grep -E '^(VIOLATION|HARNESS-ERROR|KNOWN)' | head -3
echo "$out" | grep -E 'signature|detail' | head -2 | cut -c1-400
rm -rf "$PD"
if [ $rc -eq 1 ]; then echo "==> DETECTED ($ID)"; elif [ $rc -eq 0 ]; then echo "==> MISSED ($ID)"; else echo "==> ERROR rc=$rc ($ID)"; echo "$out" | tail -15; fi
# restore clean evidence is the caller's business
exit 0
