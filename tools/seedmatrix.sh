#!/bin/bash
# tools/seedmatrix.sh [seed-name-glob] [lanes] — re-runs, on the current tree, the quick checks that are recorded
# as catching each kept seeded change (the property's own check plus every check named in meta.json's
# check_result) and writes seeded/MATRIX.md. MATRIX_ALL=1 runs EVERY check against every change instead (≈8 h).
# Isolated: each lane works on its own copy of /verif under /tmp and on its own scratch worktree of /repo
# (VERIF_REPO), so it can run next to other checks. Removes both when done.
set -u
GLOB="${1:-*}"
LANES="${2:-4}"
OUT=/verif/build/matrix.tsv
mkdir -p /verif/build/matrix; rm -f /verif/build/matrix/*.row
lane() {
  L="$1"; shift
  V=/tmp/verif-matrix-$L
  WT=/tmp/wt-matrix-$L
  rm -rf "$V"; mkdir -p "$V"
  rsync -a --exclude build --exclude replays --exclude .git --exclude evidence_thorough /verif/ "$V"/
  mkdir -p "$V/build"; cp /verif/build/vrewrite "$V/build/" 2>/dev/null
  for N in "$@"; do
    S=/verif/seeded/$N
    git -C /repo worktree remove --force "$WT" 2>/dev/null
    git -C /repo worktree add -q "$WT" HEAD || continue
    if ! git -C "$WT" apply "$S/patch.diff" 2>/dev/null; then
      echo -e "$N\tPATCH-DOES-NOT-APPLY" > "/verif/build/matrix/$N.row"; git -C /repo worktree remove --force "$WT"; continue
    fi
    IDS=$(python3 - "$S/meta.json" <<'PY'
import json,re,sys,os
m=json.load(open(sys.argv[1]))
ids={m["property"]}|set(re.findall(r"\bC\d\d\b",m.get("check_result","")))
if os.environ.get("MATRIX_ALL"): ids={"C%02d"%i for i in range(1,21)}
print(" ".join(sorted(ids)))
PY
)
    LINE="$N"
    for ID in $IDS; do
      VERIF_REPO="$WT" VERIF_SKIP_RACE=1 timeout 1800 "$V/check" "$ID" > "$V/build/out.$ID" 2>&1
      RC=$?
      case $RC in 0) R=-;; 1) R=X;; *) R="?$RC";; esac
      LINE="$LINE\t$ID=$R"
    done
    echo -e "$LINE" > "/verif/build/matrix/$N.row"
    git -C /repo worktree remove --force "$WT"
  done
  rm -rf "$V"
}
NAMES=()
for S in /verif/seeded/$GLOB/; do [ -f "$S/patch.diff" ] && NAMES+=("$(basename "$S")"); done
for ((l=0;l<LANES;l++)); do
  MINE=()
  for ((i=l;i<${#NAMES[@]};i+=LANES)); do MINE+=("${NAMES[$i]}"); done
  lane "$l" "${MINE[@]}" &
done
wait
cat /verif/build/matrix/*.row > "$OUT"
python3 - "$OUT" <<'PY'
import sys,json
ids=["C%02d"%i for i in range(1,21)]
rows=[l.rstrip("\n").split("\t") for l in open(sys.argv[1])]
with open("/verif/seeded/MATRIX.md","w") as f:
    f.write("# Which quick checks catch which seeded changes\n\nX = the check exits 1 with a VIOLATION line on the tree with the change applied, - = exits 0, ?n = harness error n (build failure / timeout), blank = not run (the check is not recorded as related to that change). Produced by `tools/seedmatrix.sh` on the current /repo HEAD + the change; the -race add-on pass is skipped.\n\n")
    f.write("| seed | "+" | ".join(i[1:] for i in ids)+" | own check |\n|---|"+"---|"*(len(ids)+1)+"\n")
    for r in sorted(rows):
        if len(r)==2 and "=" not in r[1]: f.write(f"| {r[0]} | {r[1]} |\n"); continue
        d=dict(c.split("=",1) for c in r[1:])
        own=r[0][:3]
        f.write("| "+r[0]+" | "+" | ".join(d.get(i," ") for i in ids)+" | "+("caught" if d.get(own)=="X" else "by neighbour" if "X" in d.values() else "NOT CAUGHT")+" |\n")
PY
echo MATRIX-DONE
