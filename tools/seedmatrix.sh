#!/bin/bash
# tools/seedmatrix.sh [seed-name-glob] — runs EVERY quick check against every kept seeded change and writes
# seeded/MATRIX.md (which checks catch which changes). Isolated: works on a copy of /verif under /tmp and on
# scratch worktrees of /repo (VERIF_REPO), so it can run next to other checks. Removes both when done.
set -u
GLOB="${1:-*}"
V=/tmp/verif-matrix
rm -rf "$V"; mkdir -p "$V"
rsync -a --exclude build --exclude replays --exclude .git --exclude evidence_thorough /verif/ "$V"/
mkdir -p "$V/build"; cp /verif/build/vrewrite "$V/build/" 2>/dev/null
IDS=(C01 C02 C03 C04 C05 C06 C07 C08 C09 C10 C11 C12 C13 C14 C15 C16 C17 C18 C19 C20)
OUT=/verif/build/matrix.tsv
: > "$OUT"
for S in /verif/seeded/$GLOB/; do
  N=$(basename "$S")
  [ -f "$S/patch.diff" ] || continue
  WT=/tmp/wt-matrix
  git -C /repo worktree remove --force "$WT" 2>/dev/null
  git -C /repo worktree add -q "$WT" HEAD || continue
  if ! git -C "$WT" apply "$S/patch.diff" 2>/dev/null; then
    echo -e "$N\tPATCH-DOES-NOT-APPLY" >> "$OUT"; git -C /repo worktree remove --force "$WT"; continue
  fi
  LINE="$N"
  for ID in "${IDS[@]}"; do
    VERIF_REPO="$WT" VERIF_SKIP_RACE=1 timeout 1500 "$V/check" "$ID" > "$V/build/out.$ID" 2>&1
    RC=$?
    case $RC in 0) R=-;; 1) R=X;; *) R="?$RC";; esac
    LINE="$LINE\t$R"
  done
  echo -e "$LINE" >> "$OUT"
  git -C /repo worktree remove --force "$WT"
done
python3 - "$OUT" <<'PY'
import sys
ids=["C%02d"%i for i in range(1,21)]
rows=[l.rstrip("\n").split("\t") for l in open(sys.argv[1])]
with open("/verif/seeded/MATRIX.md","w") as f:
    f.write("# Which quick checks catch which seeded changes\n\nX = the check exits 1 with a VIOLATION line on the tree with the change applied, - = exits 0, ?n = harness error n (build failure / timeout). Produced by `tools/seedmatrix.sh` (every check against every kept change, on the current /repo HEAD + the change).\n\n")
    f.write("| seed | "+" | ".join(i[1:] for i in ids)+" |\n|---|"+"---|"*len(ids)+"\n")
    for r in rows:
        if len(r)==2: f.write(f"| {r[0]} | {r[1]} |\n"); continue
        f.write("| "+r[0]+" | "+" | ".join(r[1:])+" |\n")
PY
rm -rf "$V"
echo MATRIX-DONE
