#!/usr/bin/env python3
import json,jsonschema,glob,sys
ok=True
try:
    jsonschema.validate(json.load(open('/verif/MANIFEST.json')),json.load(open('/root/.vp/MANIFEST.schema.json')))
    print("manifest valid")
except Exception as e:
    ok=False; print("MANIFEST INVALID",e)
sch=json.load(open('/root/.vp/EVIDENCE.schema.json'))
for f in sorted(glob.glob('/verif/evidence/*.json')):
    try:
        jsonschema.validate(json.load(open(f)),sch); print("ok",f)
    except Exception as e:
        ok=False; print("INVALID",f,str(e)[:300])
sys.exit(0 if ok else 1)
