# exec'd by mkmanifest.py — one add(...) per property whose check runs clean on the unchanged tree.
NA_REASONS = {}

add("C13", "model_checking",
    "exhaustive small-scope enumeration (patterns x tokens x dictionary block layouts) on the real matcher vs a reference glob/range model",
    "Every pattern over {a,b,*} up to the length bound against every token over {a,b}, every range over a fixed end set with all bracket forms, and every sorted dictionary split into every block layout are executed on the real pattern.Search / token.Table.SelectEntries and compared with an independent glob and range evaluator. Within the bound this is a complete decision, which is the right level for a pure function whose bugs are boundary cases (prefix/suffix overlap, narrowing, 'one more block').",
    "Trusted: the 10-line recursive glob and the explicit range rules in refdb; Go's strconv for number values. Beyond the length bound nothing is claimed.",
    "DESIGN.md §3 C13", "E3-smallscope")

add("C02", "model_checking",
    "exhaustive small-scope enumeration (corpora x query trees x time ranges x order x limit) on real active and sealed fractions vs the refdb reference model; merge nodes enumerated over all sub-list pairs",
    "Every corpus of up to 3 (thorough 4) documents over 7 token templates x 3 timestamps is ingested through the real write path into an active fraction and sealed; every query tree of <=2 leaves over 10 atoms with NOT at every position (plus 3-leaf trees), every [from,to] over a border grid, both orders, limits {0,1,2,n,n+1} and total on/off are rendered to SeqQL, parsed by the real parser, executed by the real engine and compared with refdb (ID sequence, total). The merge nodes are additionally enumerated over all pairs/triples of sorted sub-lists. The defects this property is about (off-by-one borders, dedup, NOT ranges, limit/order interplay) all have witnesses of this size.",
    "Trusted: refdb. Quick thins two symmetric dimensions (RID direction, order for the logic queries) by alternation, stated in the evidence rule; thorough does the full cross product up to n=3.",
    "DESIGN.md §3 C02", "E3-smallscope")

add("C03", "model_checking",
    "exhaustive shape-directed enumeration of corpora under scaled on-disk block constants (overlay), metamorphic comparison of 6 fraction forms + refdb reference",
    "The real sealing/loading code is recompiled with 4 IDs per block, 4 postings per LID block and 64-byte token blocks, so that every block-straddling path (continued LID blocks, second ID block, multi-block token dictionaries, block-min shortcuts) is reached by corpora of <=13 documents; all corpus shapes (n, hot-token postings, arrival order, bulk split, dictionary size, skip-sort, zstd level) are enumerated and every request (search in both orders and limits, time borders at every MID, histograms, 6 aggregation kinds, fetch lists) must give the same answer on the active fraction, the freshly sealed one, the one reopened from files (header and cached-info paths) and both reopened forms with a 1-byte cache budget evicted after every request, and equal refdb where the model defines the answer.",
    "Trusted: the code is parametric in the four block-size constants (they are used only as sizes); refdb. Real-constant large shapes are not enumerated (stated gap, DESIGN §5).",
    "DESIGN.md §3 C03", "E3-smallscope")

add("C14", "model_checking",
    "exhaustive enumeration of small occupancy maps / bitmasks / fraction borders and of real fraction layouts with documents at fixed ages, vs a search over all documents",
    "Bitmask.HasBitsIn is decided for all sizes<=18, all (l,r), all masks (<=10 bits fully, <=2 set bits above); MIDsDistribution soundness for all small maps, added MID subsets and query intervals, directly and after the JSON round trip used by .frac-cache; on real fractions (scaled block constants) with documents >24h, >10min before creation and after it, in one or two fractions, active / sealed / reloaded through .frac-cache, Searcher.SearchDocs (fraction skipping + LID border narrowing) equals the reference search over every interval of a border grid.",
    "Trusted: refdb; wall clock only positions the documents (ages are relative to now), no timing decides a verdict. Only soundness of pruning is required, not precision.",
    "DESIGN.md §3 C14", "E3-smallscope")

add("C04", "model_checking",
    "exhaustive enumeration of fetch ID lists (present/absent at every border, all hint kinds, two API levels) against stores running in worker subprocesses; process death/hang is an observation",
    "Seven corpora (active, sealed, overlapping fractions, equal timestamps, document sizes 2..200 B) are served by real stores (storeapi.NewStore) inside worker processes; every list of <=3 (thorough 4) distinct IDs over the present IDs and absent IDs placed at every border of every fraction, with every hint kind, is fetched through Fetcher.FetchDocs and through the streaming GrpcV1.Fetch and compared position by position with the ingested bytes; lists of 1001..2500 IDs exercise the chunk re-sizing at the real constant. Because the defects of this property kill or wedge the process (found: divide by zero in the batch loader, out-of-range in the sealed ID lookup; both repaired by fix: commits), the store runs in a child whose death is attributed to the request and reproduced before it is reported.",
    "Trusted: the bulk encoder of the harness (same layout as the proxy's). MaxFetchSizeBytes is a fixed 4 MiB, so re-sized chunks never drop below the list lengths explored; the 100k-ID end of the quantifier is not enumerated.",
    "DESIGN.md §3 C04", "E3-smallscope")

add("C05", "model_checking",
    "exhaustive enumeration of set partitions of small corpora into fractions (forms, list orders, iteration widths, limits) and of document-to-shard assignments over in-process stores, vs the single ordered list of refdb",
    "For every corpus of <=4 (thorough 5) documents with every timestamp pattern (overlapping fraction ranges forced), every set partition into <=3 fractions, every active/sealed mask, every order of the fraction list and FractionsPerIteration 1..3 the real Searcher.SearchDocs must return the refdb top-limit list, total and histogram, with and without total (early-exit path), and the single-fraction aggregation; at proxy level every assignment of documents to 1-2 shards x 1-2 replicas (including a document stored on both shards) is served by real in-process stores through search.Ingestor.Search for every (offset,size), which must page through the one ordered list without gaps or repeats.",
    "Trusted: refdb; for documents stored on two shards only the listing is compared (what the statement promises). Quick thins two symmetric dimensions at n=4 by rotation (stated in the evidence).",
    "DESIGN.md §3 C05", "E3-smallscope")

add("C06", "model_checking",
    "exhaustive enumeration of small corpora x fraction partitions x every merge tree of partial results, 38 aggregation specs in one multi-aggregation request, vs values computed by refdb from the documents",
    "Every corpus of <=2 documents over group x numeric value x timestamp (n=3 over a reduced alphabet) is split into every partition of <=3 fractions; the per-fraction partial results of one request carrying 38 aggregation specs (count, unique, sum/min/max/avg, three quantile lists, with/without group, with/without time interval) and a histogram are merged in every permutation and parenthesisation and must equal the values computed directly from the documents; a subset is repeated through Ingestor.Search over two in-process shards to cover the store<->proxy conversion. Found and repaired: quantile lists containing only 0/1 answered NaN.",
    "Trusted: refdb/agg.go including the store API's not-exists conventions (documented there); single-valued group/field tokens and dyadic values only.",
    "DESIGN.md §3 C06", "E3-smallscope")

add("C17", "model_checking",
    "exhaustive enumeration of bulk histories with re-sent IDs (all ordered sub-bulks, all histories up to depth 3, rotation variant) on the real indexing path, judged on active / sealed / reopened fractions against set-semantics refdb",
    "Every history of <=3 bulks over an ID universe of 4 documents (each bulk any ordered subset of <=3 distinct IDs, so whole-bulk repeats, partial overlaps, the same earlier document several times and repeats interleaved with new data are all present) is ingested through the real appendWorker path; listing, totals, histogram, count/sum aggregations, the fraction's document count and fetch must equal the deduplicated reference on the active fraction, after sealing and after reopening from files; the variant with the first bulk in an earlier sealed fraction checks listing-once and fetch across fractions. The concurrent-repeat part of the quantifier is explored by the C07 scheduler harness.",
    "Trusted: refdb with set semantics. Quick restricts the third bulk to <=2 IDs; thorough lifts it.",
    "DESIGN.md §3 C17", "E3-smallscope")

add("C01", "fault_enumeration",
    "exhaustive crash-state enumeration of the write path's file-operation journal (every prefix, every torn byte length, lost unsynced tails), multi-stage BFS crash -> recover -> ingest -> crash, recovery by the real loader in child processes",
    "The storage packages are rebuilt against an os shim that journals every mutating file operation and elides fsync. For stage plans of 2 and 3 restarts, every state a crash can leave (Model A: each journal prefix with every torn length of the in-flight docs/meta write; Model B: plus every cut of un-synced tails), de-duplicated by a canonical directory hash, is materialised and recovered by the real FracManager.Load in a child process; every document of every bulk is then fetched byte-for-byte and searched by each token (acked => present; unacked => wholly present or absent; never other bytes), more bulks are ingested and the next stage's crash states are explored from there. A subset of states is validated against a child that really dies at that journal position. Found and repaired: replay position drift after an orphan docs block, torn meta tail, lone empty .docs file.",
    "Trusted: the persistence model (data durable once followed by a sync of that file; namespace operations atomic, ordered, durable — a missing directory fsync is outside the model). Bulks are small (1-3 documents), histories have <=3 restarts.",
    "DESIGN.md §3 C01", "E2-vos")

add("C08", "fault_enumeration",
    "exhaustive crash-state enumeration of the sealing journal (every prefix, every torn length of the temp files, lost unsynced tails) plus every single injected I/O fault (write/sync/rename/create/seek/remove : k-th), recovery by the real loader in child processes",
    "For every corpus x SkipSortDocs x KeepMetaFile (scaled block constants so that the index has many small blocks) the journal of load + rotate + seal + release is recorded; every crash state (Model A+B) is materialised and recovered in a child, which must serve every ingested document (fetch byte-for-byte, found by each token); and each single fault kind:k, k=1..all observed operations, is injected into a real seal: whether fm.seal terminates the process or Seal returns, the documents must be served in-process (if alive) and after restart from the directory left behind. Found and repaired: write errors of ids/lids blocks were swallowed and a truncated index was published.",
    "Trusted: persistence model as C01; one fault per run; sealing of bulks of 1-3 documents.",
    "DESIGN.md §3 C08", "E2-vos")

add("C15", "fault_enumeration",
    "exhaustive crash-prefix enumeration of the journals of fraction creation / rotation / sealing / retention / deletion scripts crossed with .frac-cache variants, recovery by the real loader in child processes; retention order judged on the live store over short op sequences",
    "Scripts of ingest, seal+rotate, real size-based retention (maintenance through Start/Stop with a budget of the newest k fractions) and explicit deletion of a never-sealed and of a sealed fraction are journaled; every journal prefix (plus torn data / cache writes), crossed with .frac-cache as is / missing / garbage / truncated / any earlier version, is recovered by the real loader in a child: the store must start, every fraction is completely served or completely gone, a fraction whose deletion has begun never reappears and untouched fractions are served; 24 further sequences check that retention leaves a suffix of the creation order. Found and repaired: an interrupted deletion of an active fraction (and an interrupted creation, see C01) left a lone .docs file that stopped every later start.",
    "Trusted: Model A persistence (atomic, ordered, durable namespace operations); a retention budget smaller than the fraction being written is treated as misconfiguration and not generated.",
    "DESIGN.md §3 C15", "E2-vos")

add("C19", "fault_enumeration",
    "differential check async vs sync search on real stores in child processes + exhaustive restart injection at every prefix of the async data dir's file-operation journal",
    "For every corpus (1-3 fractions, active/sealed, one with a document re-delivered into a second fraction) and every request kind (plain, histogram, five aggregation kinds, both orders) the async search's result at Done must equal Searcher.SearchDocs with the same parameters; then the store is restarted from every crash state of the journal of .info/.qpr atomic writes (every prefix, torn temp files): the search must resume and end with that same result, or be unknown if the crash precedes the return of StartSearch. Found and repaired: result merge with a hard-coded histogram interval (corrupt histogram / nil-map panic with a re-delivered document).",
    "Trusted: persistence Model A for the async data dir; fractions are not deleted between start and restart. A resumed search that never finishes is reported only after two runs with a 3 s and a 30 s horizon.",
    "DESIGN.md §3 C19", "E2-vos")

add("C18", "model_checking",
    "explicit-state BFS over cache/cleaner operation sequences on the real code (replay + 1 op, canonical-state dedup, invariant in every state) and exhaustive thread interleavings under a cooperative scheduler with iterative preemption bounding (unbounded in thorough)",
    "The cache package is rebuilt against a sync shim whose lock/waitgroup operations are scheduling points. (a) From one cleaner and one cache, every sequence of get / failing get / panicking get / Rotate / Cleanup / CleanEmptyGenerations / ReleaseBuckets / Release / NewCache up to depth 5 (thorough 7) is explored breadth-first on the real objects with canonical-state de-duplication, checking in every state: returned value = loader value, failures reported and not poisoning, accounted size = sum of live entries, every live cache managed, size under the limit right after Cleanup. (b) Five three-thread scenarios (same key twice, failing, panicking, release, in-flight load while its generation is dropped) with a cleaner pass are explored over all interleavings with <=3 preemptions (thorough: all interleavings, 3.4M schedules) and judged at quiescence. Found and repaired: ReleaseBuckets dropping a live cache; in-flight load accounted to a dropped generation.",
    "Trusted: scheduling points are lock / rwlock / waitgroup / once operations plus one point inside each loader; atomics and channel operations are not permuted; unsynchronised accesses would need the race detector (not part of this check).",
    "DESIGN.md §3 C18", "E1-vsched")
