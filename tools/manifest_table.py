# exec'd by mkmanifest.py — one add(...) per property whose check runs clean on the unchanged tree.
NA_REASONS = {}

add("C13", "model_checking",
    "exhaustive small-scope enumeration (patterns x tokens x dictionary block layouts) on the real matcher vs a reference glob/range model",
    "Every pattern over {a,b,*} up to the length bound against every token over {a,b}, every range over a fixed end set with all bracket forms, and every sorted dictionary split into every block layout are executed on the real pattern.Search / token.Table.SelectEntries and compared with an independent glob and range evaluator. Within the bound this is a complete decision, which is the right level for a pure function whose bugs are boundary cases (prefix/suffix overlap, narrowing, 'one more block').",
    "Trusted: the 10-line recursive glob and the explicit range rules in refdb; Go's strconv for number values. Beyond the length bound nothing is claimed.",
    "DESIGN.md §3 C13", "E3-smallscope")
