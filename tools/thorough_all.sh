#!/bin/bash
# tools/thorough_all.sh [IDs...] — runs the thorough tier of every (or the given) check sequentially on the
# unchanged tree and writes one summary line per check to build/thorough_summary.txt
cd "$(dirname "$0")/.."
IDS=("$@")
[ ${#IDS[@]} -eq 0 ] && IDS=(C10 C11 C12 C13 C04 C15 C01 C08 C02 C03 C05 C06 C09 C16 C07 C18 C14 C17 C19 C20)
mkdir -p build
for ID in "${IDS[@]}"; do
  echo "$ID" > build/thorough_current
  T0=$(date +%s)
  cp "evidence/$ID.json" "build/evidence.$ID.quick" 2>/dev/null
  ./check "$ID" --tier thorough > "build/logs/$ID.thorough.out" 2>&1
  RC=$?
  T1=$(date +%s)
  echo "$(date +%H:%M) $ID rc=$RC wall=$((T1-T0))s $(grep -E 'tier=thorough' build/logs/$ID.thorough.out | tail -1 | sed 's/.*tier=thorough//' | cut -c1-220)" >> build/thorough_summary.txt
  mkdir -p evidence_thorough; cp "evidence/$ID.json" "evidence_thorough/$ID.json" 2>/dev/null
  cp "build/evidence.$ID.quick" "evidence/$ID.json" 2>/dev/null   # evidence/ keeps the quick-tier run
done
rm -f build/thorough_current
echo "ALL DONE" >> build/thorough_summary.txt
