#!/bin/bash
# tools/seedcheck.sh <seed-name> <worktree> <demo-target-dir> <demo-run-regex> <check-ID> [more check IDs...]
# 1. confirms a seeded change in its scratch worktree: builds, demo FAILS with the patch and PASSES without;
# 2. applies it to /repo, runs the given checks, undoes it (git checkout -- .);
# 3. stores patch + demo under /verif/seeded/<seed-name>/ and prints a summary (meta.json is written by hand).
set -u
NAME="$1"; WT="$2"; DDIR="$3"; DRE="$4"; shift 4
export GOFLAGS=-mod=mod GOPROXY=off
cd "$WT" || exit 2
git checkout -q -- . 2>/dev/null
git apply --check SEED/patch.diff || { echo "patch does not apply"; exit 2; }
DEMO="$DDIR/zz_seed_demo_test.go"
cp SEED/demo_test.go "$DEMO"
echo "== pristine: demo must PASS"
go test -vet=off -count=1 -run "$DRE" "./$DDIR/" >/tmp/seedcheck.$$.log 2>&1; P1=$?; tail -3 /tmp/seedcheck.$$.log
git apply SEED/patch.diff
echo "== patched: build + demo must FAIL"
go build ./... 2>&1 | tail -3
go test -vet=off -count=1 -run "$DRE" "./$DDIR/" >/tmp/seedcheck.$$.log 2>&1; P2=$?; tail -4 /tmp/seedcheck.$$.log; rm -f /tmp/seedcheck.$$.log
echo "SEED-CONFIRM name=$NAME demo_on_pristine=$([ $P1 -eq 0 ] && echo PASS || echo FAIL) demo_with_patch=$([ $P2 -ne 0 ] && echo FAIL || echo PASS)"
echo "== patched: existing tests of touched packages"
for d in $(git diff --name-only | xargs -n1 dirname | sort -u); do rm -f "$DEMO.bak"; done
mv "$DEMO" /tmp/seed_demo_hold.go
for d in $(git diff --name-only | xargs -n1 dirname | sort -u); do [ -n "${SEED_SKIP_PKGTESTS:-}" ] && continue; go test -vet=off -count=1 "./$d/" 2>&1 | tail -1; done
git checkout -q -- .
mkdir -p "/verif/seeded/$NAME"
cp SEED/patch.diff "/verif/seeded/$NAME/patch.diff"
cp SEED/demo_test.go "/verif/seeded/$NAME/demo_test.go"
cp SEED/notes.md "/verif/seeded/$NAME/notes.md" 2>/dev/null
rm -f /tmp/seed_demo_hold.go
cd "${SEEDCHECK_VERIF:-/verif}"   # SEEDCHECK_VERIF: an isolated copy of /verif (so a check of the same ID may run in /verif meanwhile)
# the checks run against the patched scratch worktree (VERIF_REPO), so /repo stays untouched and other
# checks may run on it at the same time; `git -C /repo apply <patch>; ./check; git -C /repo checkout -- .` is equivalent
git -C "$WT" apply "/verif/seeded/$NAME/patch.diff" || { echo "cannot apply to $WT"; exit 2; }
export VERIF_REPO="$WT"
for ID in "$@"; do
  cp "evidence/$ID.json" "build/evidence.$ID.keep" 2>/dev/null
  echo "== /repo patched: ./check $ID"
  VERIF_SKIP_RACE=${VERIF_SKIP_RACE:-1} timeout 1500 ./check "$ID" 2>&1 | grep -v '^KNOWN' | grep -E '^VIOLATION|signature|detail|HARNESS|tier=' | head -6 | cut -c1-400
  echo "rc=${PIPESTATUS[0]}"
  cp "build/evidence.$ID.keep" "evidence/$ID.json" 2>/dev/null   # the evidence file describes the unchanged tree
done
git -C "$WT" checkout -- .
git -C "$WT" status --short | grep -v SEED | head -3
