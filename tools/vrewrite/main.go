// vrewrite builds a `go build -overlay` file for the seq-db repository.
//
// It never touches /repo. It reads the CURRENT files of /repo, so any edit made to the
// repository is reflected in the next check run.
//
//	vrewrite -repo /repo -verif /verif -features fs,small -out /verif/build/overlay-fs,small.json
//
// The overlay always contains every file under <verif>/mount (mapped to the same relative
// path under <repo>). Features add rewritten copies of repository files:
//
//	sched : import "sync" -> zzverif/vsync in cache, frac, fracmanager, bytespool;
//	        `go func(){...}()` -> vsched.Go(func(){...}) in fracmanager/{fetcher,searcher}.go
//	fs    : import "os"   -> zzverif/vos in frac, fracmanager, disk, util/fs.go
//	small : consts.IDsPerBlock=IDsBlockSize=4, LIDBlockCap=4, RegularBlockSize=64
//	proxy : import "time" -> zzverif/vtime in proxy/bulk/seqdb_client.go,
//	        import "math/rand" -> zzverif/vrand in util/util.go
package main

import (
	"encoding/json"
	"flag"
	"fmt"
	"go/ast"
	"go/parser"
	"go/token"
	"os"
	"path/filepath"
	"regexp"
	"sort"
	"strings"
)

const module = "github.com/ozontech/seq-db"

type edit struct {
	start, end int
	text       string
}

func fatal(f string, a ...any) {
	fmt.Fprintf(os.Stderr, "vrewrite: "+f+"\n", a...)
	os.Exit(2)
}

func goFiles(repo, dir string) []string {
	ents, err := os.ReadDir(filepath.Join(repo, dir))
	if err != nil {
		fatal("%v", err)
	}
	var r []string
	for _, e := range ents {
		n := e.Name()
		if e.IsDir() || !strings.HasSuffix(n, ".go") || strings.HasSuffix(n, "_test.go") {
			continue
		}
		r = append(r, filepath.Join(dir, n))
	}
	return r
}

// importRewrite: file (relative) -> map[oldImportPath]newImportPath(with local name = base of old)
type rewriteSet map[string]map[string]string

func (rs rewriteSet) add(file, from, to string) {
	if rs[file] == nil {
		rs[file] = map[string]string{}
	}
	rs[file][from] = to
}

func main() {
	repo := flag.String("repo", "/repo", "")
	verif := flag.String("verif", "/verif", "")
	features := flag.String("features", "", "comma separated: sched,fs,small,proxy")
	out := flag.String("out", "", "overlay json output")
	extra := flag.String("patch-dir", "", "optional dir mirroring repo paths whose files replace repo files (self-test mutants)")
	flag.Parse()
	if *out == "" {
		fatal("-out required")
	}
	feat := map[string]bool{}
	for _, f := range strings.Split(*features, ",") {
		if f != "" && f != "plain" {
			feat[f] = true
		}
	}
	rs := rewriteSet{}
	goStmt := map[string]bool{}
	entryPoint := map[string][2]string{} // file -> {receiver type, method}: vsched.Extra(...) as the first statement
	if feat["sched"] {
		// bytespool: its size-class pools become vsync.Pool = deterministic LIFO free lists, so which dirty
		// buffer a search or a seal gets back is a function of the schedule alone (sync.Pool's per-P caches
		// and GC-driven emptying are outside the scheduler's control)
		for _, d := range []string{"cache", "frac", "fracmanager", "bytespool"} {
			for _, f := range goFiles(*repo, d) {
				// FileWriter keeps the real sync primitives: its mutex / waitgroup are only shared with its own
				// free-running syncLoop helper goroutine (request/response over channels), never held across a
				// scheduling point; shimming them would make the enabled set depend on the helper's timing.
				if f == "frac/file_writer.go" {
					continue
				}
				rs.add(f, "sync", module+"/zzverif/vsync")
			}
		}
		// optional scheduling point (vsched.Extra, off unless a scenario asks) where FileWriter reserves its offset
		// with an atomic add: the order of concurrent writers' docs / meta writes becomes explorable
		entryPoint["frac/file_writer.go"] = [2]string{"FileWriter", "Write"}
		goStmt["fracmanager/fetcher.go"] = true
		goStmt["fracmanager/searcher.go"] = true
	}
	if feat["fs"] {
		for _, d := range []string{"frac", "fracmanager", "disk"} {
			for _, f := range goFiles(*repo, d) {
				rs.add(f, "os", module+"/zzverif/vos")
			}
		}
		rs.add("util/fs.go", "os", module+"/zzverif/vos")
	}
	if feat["proxy"] {
		rs.add("proxy/bulk/seqdb_client.go", "time", module+"/zzverif/vtime")
		rs.add("util/util.go", "math/rand", module+"/zzverif/vrand")
	}

	rwDir := filepath.Join(*verif, "build", "rw", strings.ReplaceAll(*features, ",", "_"))
	if *extra != "" {
		rwDir += "_p"
	}
	os.RemoveAll(rwDir)
	if err := os.MkdirAll(rwDir, 0o755); err != nil {
		fatal("%v", err)
	}
	replace := map[string]string{}

	// 1. mounts
	mount := filepath.Join(*verif, "mount")
	filepath.Walk(mount, func(p string, info os.FileInfo, err error) error {
		if err != nil || info.IsDir() {
			return nil
		}
		rel, _ := filepath.Rel(mount, p)
		replace[filepath.Join(*repo, rel)] = p
		return nil
	})

	// source of a repo file: patched copy if present in patch-dir
	src := func(rel string) string {
		if *extra != "" {
			p := filepath.Join(*extra, rel)
			if _, err := os.Stat(p); err == nil {
				return p
			}
		}
		return filepath.Join(*repo, rel)
	}
	// patch-dir files that are not otherwise rewritten are replaced verbatim
	if *extra != "" {
		filepath.Walk(*extra, func(p string, info os.FileInfo, err error) error {
			if err != nil || info.IsDir() {
				return nil
			}
			rel, _ := filepath.Rel(*extra, p)
			replace[filepath.Join(*repo, rel)] = p
			return nil
		})
	}

	// The repository's own white-box tests of the rewritten packages pass *sync.WaitGroup etc. into
	// functions whose parameter types become shim types: under `sched` they are removed from the build
	// (overlay entry with an empty replacement = file deleted); only the mounted harness tests compile.
	if feat["sched"] {
		for _, d := range []string{"cache", "frac", "fracmanager"} {
			ents, _ := os.ReadDir(filepath.Join(*repo, d))
			for _, e := range ents {
				n := e.Name()
				if strings.HasSuffix(n, "_test.go") && !strings.HasPrefix(n, "zz_verif") {
					replace[filepath.Join(*repo, d, n)] = ""
				}
			}
		}
	}

	files := map[string]bool{}
	for f := range rs {
		files[f] = true
	}
	for f := range goStmt {
		files[f] = true
	}
	for f := range entryPoint {
		files[f] = true
	}
	var names []string
	for f := range files {
		names = append(names, f)
	}
	sort.Strings(names)
	nImports, nGo := 0, 0
	for _, rel := range names {
		data, err := os.ReadFile(src(rel))
		if err != nil {
			fatal("%v", err)
		}
		fset := token.NewFileSet()
		af, err := parser.ParseFile(fset, rel, data, parser.ParseComments)
		if err != nil {
			fatal("parse %s: %v", rel, err)
		}
		var edits []edit
		off := func(p token.Pos) int { return fset.Position(p).Offset }
		changed := false
		for _, im := range af.Imports {
			path := strings.Trim(im.Path.Value, "\"")
			to, ok := rs[rel][path]
			if !ok {
				continue
			}
			if im.Name != nil {
				fatal("%s: import %q has a local name; refusing", rel, path)
			}
			local := path[strings.LastIndex(path, "/")+1:]
			edits = append(edits, edit{off(im.Path.Pos()), off(im.Path.End()), local + " \"" + to + "\""})
			nImports++
			changed = true
		}
		if goStmt[rel] {
			found := 0
			ast.Inspect(af, func(n ast.Node) bool {
				g, ok := n.(*ast.GoStmt)
				if !ok {
					return true
				}
				fl, ok := g.Call.Fun.(*ast.FuncLit)
				if !ok || len(g.Call.Args) != 0 || len(fl.Type.Params.List) != 0 {
					fatal("%s: go statement is not a no-arg closure; refusing", rel)
				}
				// "go " -> "vsched.Go(" ; trailing "()" -> ")"
				edits = append(edits, edit{off(g.Go), off(g.Call.Fun.Pos()), "vsched.Go("})
				edits = append(edits, edit{off(g.Call.Lparen), off(g.Call.Rparen) + 1, ")"})
				found++
				return true
			})
			if found == 0 {
				fatal("%s: expected go statements to rewrite, found none", rel)
			}
			nGo += found
			// add import after package clause
			last := af.Imports[len(af.Imports)-1]
			edits = append(edits, edit{off(last.End()), off(last.End()), "\n\t\"" + module + "/zzverif/vsched\""})
			changed = true
		}
		if ep, ok := entryPoint[rel]; ok {
			found := 0
			for _, d := range af.Decls {
				fd, ok := d.(*ast.FuncDecl)
				if !ok || fd.Name.Name != ep[1] || fd.Recv == nil || len(fd.Recv.List) != 1 || fd.Body == nil {
					continue
				}
				st, ok := fd.Recv.List[0].Type.(*ast.StarExpr)
				if !ok {
					continue
				}
				if id, ok := st.X.(*ast.Ident); !ok || id.Name != ep[0] {
					continue
				}
				edits = append(edits, edit{off(fd.Body.Lbrace) + 1, off(fd.Body.Lbrace) + 1, "\n\tvsched.Extra(\"" + ep[0] + "." + ep[1] + "\")"})
				found++
			}
			if found != 1 {
				fatal("%s: expected exactly one method (*%s).%s, found %d", rel, ep[0], ep[1], found)
			}
			last := af.Imports[len(af.Imports)-1]
			edits = append(edits, edit{off(last.End()), off(last.End()), "\n\t\"" + module + "/zzverif/vsched\""})
			changed = true
		}
		if !changed {
			continue
		}
		sort.Slice(edits, func(i, j int) bool { return edits[i].start > edits[j].start })
		b := data
		for _, e := range edits {
			b = append(append(append([]byte{}, b[:e.start]...), e.text...), b[e.end:]...)
		}
		dst := filepath.Join(rwDir, strings.ReplaceAll(rel, "/", "__"))
		if err := os.WriteFile(dst, b, 0o644); err != nil {
			fatal("%v", err)
		}
		replace[filepath.Join(*repo, rel)] = dst
	}

	if feat["small"] {
		rel := "consts/consts.go"
		data, err := os.ReadFile(src(rel))
		if err != nil {
			fatal("%v", err)
		}
		s := string(data)
		for name, val := range map[string]string{"IDsBlockSize": "4", "RegularBlockSize": "64", "IDsPerBlock": "4", "LIDBlockCap": "4"} {
			re := regexp.MustCompile(`(?m)^(\s*` + name + `\s*=\s*)[^\n]+$`)
			if !re.MatchString(s) {
				fatal("consts.go: constant %s not found", name)
			}
			s = re.ReplaceAllString(s, "${1}"+val)
		}
		dst := filepath.Join(rwDir, "consts__consts.go")
		os.WriteFile(dst, []byte(s), 0o644)
		replace[filepath.Join(*repo, rel)] = dst
	}

	js, _ := json.MarshalIndent(map[string]any{"Replace": replace}, "", " ")
	if err := os.WriteFile(*out, js, 0o644); err != nil {
		fatal("%v", err)
	}
	fmt.Fprintf(os.Stderr, "vrewrite: features=%q files=%d imports=%d gostmts=%d -> %s\n", *features, len(replace), nImports, nGo, *out)
}
