#!/bin/bash
# tools/seedpkgtests.sh <round-glob> — for every kept seeded change matching the glob: apply the patch in a scratch
# worktree of /repo and run the existing tests of the touched packages (what the sub-agent reported is re-run here).
export GOFLAGS=-mod=mod GOPROXY=off
WT=/tmp/wt-pkgtests
for S in /verif/seeded/$1/; do
  N=$(basename "$S"); [ -f "$S/patch.diff" ] || continue
  git -C /repo worktree remove --force "$WT" 2>/dev/null
  git -C /repo worktree add -q "$WT" HEAD || continue
  if ! git -C "$WT" apply "$S/patch.diff" 2>/dev/null; then echo "$N PATCH-DOES-NOT-APPLY"; continue; fi
  R=""
  for d in $(git -C "$WT" diff --name-only | xargs -n1 dirname | sort -u); do
    if (cd "$WT" && go test -vet=off -count=1 "./$d/" >/tmp/pkgtests.log 2>&1); then R="$R $d=ok"; else R="$R $d=FAIL"; fi
  done
  echo "$N$R"
done
git -C /repo worktree remove --force "$WT" 2>/dev/null
rm -f /tmp/pkgtests.log
