#!/usr/bin/env python3
"""Generates /verif/MANIFEST.json from the table below (single source of truth)."""
import json, os, sys

V = os.path.dirname(os.path.dirname(os.path.abspath(__file__)))

ENGINES = [
    {"name": "E1-vsched", "path": "mount/zzverif/vsched", "serves_properties": ["C07", "C15", "C17", "C18"],
     "kind_free_text": "cooperative scheduler + sync shim (overlay import rewrite), DFS over thread interleavings with iterative preemption bounding, on the real code"},
    {"name": "E2-vos", "path": "mount/zzverif/vos", "serves_properties": ["C01", "C08", "C15", "C19"],
     "kind_free_text": "os shim with operation journal: enumeration of every crash prefix / torn write / lost unsynced tail and of every single injected I/O fault; recovery by the real loader in child processes"},
    {"name": "E3-smallscope", "path": "mount/zzverif/refdb", "serves_properties": ["C02", "C03", "C04", "C05", "C06", "C10", "C11", "C12", "C13", "C14", "C17", "C18", "C20"],
     "kind_free_text": "exhaustive small-scope enumeration of inputs / operation sequences on the real functions against a reference model (refdb); explicit-state BFS with canonical-state dedup for stateful objects"},
    {"name": "E4-envdfs", "path": "mount/zzverif/hproxy", "serves_properties": ["C09", "C16", "C19", "C20"],
     "kind_free_text": "scripted StoreApiClient fakes; DFS over per-call environment answers with a deviation bound"},
]

# id -> (category, technique, text, note, design_ref, engine) ; only properties with a working check are listed
CHECKS = {}

def add(pid, category, technique, text, note, ref, engine):
    CHECKS[pid] = dict(category=category, technique=technique, text=text, note=note, ref=ref, engine=engine)

exec(open(os.path.join(V, "tools", "manifest_table.py")).read())

NOT_YET = {}
props = [json.loads(l)["id"] for l in open(os.path.join(V, "properties.jsonl"))]
na = []
for pid in props:
    if pid not in CHECKS:
        na.append({"property_id": pid, "reason": NA_REASONS.get(pid, "check not built yet in this session (planned, see DESIGN.md §3); not claimed until it runs clean on the unchanged tree")})

m = {
    "version": 1,
    "setup_cmd": "./setup.sh",
    "hooks": {
        "guard": "verif (overlay only: go test -overlay produced by tools/vrewrite; no hook commits in /repo)",
        "enable": "./check <ID> regenerates build/overlay-<ID>.json from /repo's current files (import rewrites sync->vsync, os->vos, scaled block constants; harness files mounted virtually) and runs `go test -overlay`",
        "baseline_off_cmd": "cd /repo && GOFLAGS=-mod=mod GOPROXY=off go test -vet=off -count=1 -timeout 25m ./...",
        "source_commits": [],
        "add_only": True,
    },
    "engines": ENGINES,
    "checks": [],
    "not_applicable": na,
    "notes": "All interception is done by go build overlays generated from the current /repo tree, so no instrumentation commit exists; `fix:` commits for genuine defects are listed in known_findings.json. See DESIGN.md.",
}
for pid in props:
    if pid not in CHECKS:
        continue
    c = CHECKS[pid]
    m["checks"].append({
        "property_id": pid,
        "quick_cmd": f"./check {pid} --tier quick",
        "thorough_cmd": f"./check {pid} --tier thorough",
        "evidence_file": f"/verif/evidence/{pid}.json",
        "replay_cmd_template": f"./check {pid} --replay {{path}}",
        "engine": c["engine"],
        "level_claimed": {"category": c["category"], "text": c["text"], "design_ref": c["ref"]},
        "level_note": c["note"],
        "technique": c["technique"],
    })
json.dump(m, open(os.path.join(V, "MANIFEST.json"), "w"), indent=1)
print("MANIFEST.json written:", len(m["checks"]), "checks,", len(na), "not claimed")
