#!/bin/bash
# tools/quick_all.sh [IDs...] — runs the quick tier of every (or the given) check sequentially on the unchanged tree
# and writes one summary line per check to build/quick_summary.txt
cd "$(dirname "$0")/.."
IDS=("$@")
[ ${#IDS[@]} -eq 0 ] && IDS=(C01 C02 C03 C04 C05 C06 C07 C08 C09 C10 C11 C12 C13 C14 C15 C16 C17 C18 C19 C20)
mkdir -p build
for ID in "${IDS[@]}"; do
  T0=$(date +%s)
  ./check "$ID" --tier quick > "build/logs/$ID.quick.out" 2>&1
  RC=$?
  T1=$(date +%s)
  echo "$(date +%H:%M) $ID rc=$RC wall=$((T1-T0))s viol=$(grep -c '^VIOLATION' build/logs/$ID.quick.out) known=$(grep -c '^KNOWN-FINDING' build/logs/$ID.quick.out) $(grep -E 'tier=quick' build/logs/$ID.quick.out | sed 's/.*tier=quick//' | cut -c1-120 | tr '\n' '|')" >> build/quick_summary.txt
done
echo "ALL DONE" >> build/quick_summary.txt
