module veriftools

go 1.23
