#!/bin/bash
# tools/baseline.sh — runs the repository's own test suite on /repo and compares with the pinned baseline:
# every test that passed in all three baseline runs (/w/out/run{1,2,3}.json) must pass.
export GOFLAGS=-mod=mod GOPROXY=off
OUT=${1:-/tmp/baseline.$$.json}
(cd /repo && go test -json -vet=off -count=1 -timeout 25m ./... > "$OUT" 2>/dev/null)
python3 - "$OUT" <<'PY'
import json,sys
stable=None
for r in ("run1","run2","run3"):
    p=set(json.load(open(f"/w/out/{r}.json"))["passed"])
    stable = p if stable is None else stable & p
res={}
for line in open(sys.argv[1],errors="replace"):
    try: e=json.loads(line)
    except Exception: continue
    if e.get("Test") and e.get("Action") in ("pass","fail","skip"):
        res[e["Package"]+"::"+e["Test"]]=e["Action"]
bad=[t for t in sorted(stable) if res.get(t)!="pass"]
print(f"stable_pass={len(stable)} passing_now={sum(1 for t in stable if res.get(t)=='pass')} not_passing={len(bad)}")
for t in bad[:40]: print("  NOT PASSING:", t, res.get(t))
PY
rm -f "$OUT"
