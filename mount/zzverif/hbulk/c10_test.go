package hbulk

// C10 — bulk ingestion stores valid documents verbatim, timed by rule, or stores nothing.
// (A) every request body built from <= N (action, document) items over an alphabet of line shapes
//     (object, object with time field, non-object, invalid JSON, empty, sizes around the document-size /
//     reader-buffer limit, blank lines, CRLF, missing final newline, bad action lines), plain and gzip,
//     through the real proxyapi.BulkHandler over a real bulk.Ingestor with a capturing storage client;
// (B) the time rule through Ingestor.ProcessDocuments with a chosen request time: every time field x
//     format x offset around both drift borders.

import (
	"bytes"
	"compress/gzip"
	"context"
	"encoding/json"
	"fmt"
	"net/http"
	"net/http/httptest"
	"strings"
	"testing"
	"time"

	"github.com/ozontech/seq-db/consts"
	"github.com/ozontech/seq-db/frac"
	"github.com/ozontech/seq-db/proxy/bulk"
	"github.com/ozontech/seq-db/proxyapi"
	"github.com/ozontech/seq-db/seq"
	"github.com/ozontech/seq-db/zzverif/vlib"
)

const c10MaxDoc = 64

type c10Item struct {
	Action string `json:"action"` // create | index | bad | long
	Doc    string `json:"doc"`    // name of the document shape
	Blank  bool   `json:"blank"`  // a blank line before the action line
}

type c10Case struct {
	Items   []c10Item `json:"items,omitempty"`
	CRLF    bool      `json:"crlf,omitempty"`
	NoFinal bool      `json:"no_final_newline,omitempty"`
	Gzip    bool      `json:"gzip,omitempty"`
	// GzipCut > 0 (with Gzip): the body is sent as TWO concatenated gzip members (valid gzip, RFC 1952), the first
	// holding the first GzipCut bytes
	GzipCut int `json:"gzip_cut,omitempty"`
	// time rule
	Field  string `json:"field,omitempty"`
	Format string `json:"format,omitempty"`
	Offset int64  `json:"offset_ms,omitempty"`
	Years  int    `json:"offset_years,omitempty"` // far past / far future documents (beyond what a time.Duration holds)
	// RFC validity probe: name of the invalid document shape
	Invalid string `json:"invalid,omitempty"`
	// time rule, sequences of documents with several time fields through one (pooled) processor
	TSeq   []int `json:"tseq,omitempty"`
	TSplit bool  `json:"tsplit,omitempty"` // one request per document instead of one request for all
}

func objOfLen(n int, tag string) string {
	s := `{"t":"` + tag + `","p":"`
	for len(s)+2 < n {
		s += "x"
	}
	return s + `"}`
}

// document shapes: name -> (line, kind) ; kind: object | nonobject | invalid | empty
func c10DocShapes() map[string][2]string {
	m := map[string][2]string{
		"obj":     {`{"a":"Ab","n":1}`, "object"},
		"obj2":    {`{"msg":"Hello World","Service":"X"}`, "object"},
		"objnest": {`{"o":{"k":[1,{"z":null}]},"s":"é\"q\\"}`, "object"},
		"empty{}": {`{}`, "object"},
		"array":   {`[1,2]`, "nonobject"},
		"string":  {`"str"`, "nonobject"},
		"number":  {`42`, "nonobject"},
		"null":    {`null`, "nonobject"},
		"trunc":   {`{"a":`, "invalid"},
		"unquoted": {`{a:1}`, "invalid"},
		"lonebrace": {`}`, "invalid"},
		"emptyline": {``, "empty"},
		// insignificant JSON whitespace around the object belongs to the line: stored verbatim
		"padlead":  {"  " + `{"a":"Ab","n":2}`, "object"},
		"padtrail": {`{"a":"Ab","n":3}` + " \t", "object"},
		// a Unicode space that is NOT JSON whitespace after the object: the line is not valid JSON
		"nbsptail": {`{"a":"Ab","n":4}` + "\u00a0", "invalid"},
	}
	for _, n := range []int{61, 62, 63, 64, 65, 66, 67, 127, 128, 129} {
		m[fmt.Sprintf("len%d", n)] = [2]string{objOfLen(n, fmt.Sprint(n)), "object"}
	}
	return m
}

func actionLine(a string) string {
	switch a {
	case "create":
		return `{"create":{}}`
	case "index":
		return `{"index":{"_index":"x"}}`
	case "bad":
		return `{"delete":{}}`
	case "long":
		return `{"index":{"_id":"` + strings.Repeat("i", 80) + `"}}`
	}
	panic(a)
}

// expected outcome of a body by a reference reading of the items (not of the bytes)
type c10Expect struct {
	reject    bool
	stored    []string
	ambiguous int // number of documents exactly on the size border: each may be stored or skipped
}

// c10Expected is the reference reading of a body. Bit k of atLimitStored selects the reading of the k-th
// document line that is exactly as long as the limit: stored (1) or skipped as over-size (0). (The real
// reader's reading of such a line depends on whether the transport delivers EOF together with the last
// bytes, so it may differ between two such lines of one body.)
func c10Expected(c c10Case, atLimitStored int) c10Expect {
	shapes := c10DocShapes()
	var e c10Expect
	actions := 0
	eol := 0
	if c.CRLF {
		eol = 1
	}
	for i, it := range c.Items {
		if it.Action == "long" {
			e.reject = true // an action line longer than the buffer is a protocol error
			return e
		}
		if it.Action == "bad" && actions < 5 {
			e.reject = true
			return e
		}
		actions++
		sh := shapes[it.Doc]
		last := i == len(c.Items)-1
		eff := len(sh[0]) + eol
		if last && c.NoFinal {
			eff = len(sh[0])
		}
		if sh[1] != "empty" && eff > c10MaxDoc {
			continue // over-size line: skipped with its action line
		}
		if sh[1] != "empty" && eff == c10MaxDoc {
			e.ambiguous++
			if atLimitStored&(1<<(e.ambiguous-1)) == 0 {
				continue
			}
		}
		switch sh[1] {
		case "empty":
			e.reject = true // empty document after action line
			return e
		case "invalid":
			e.reject = true
			return e
		case "nonobject":
		case "object":
			e.stored = append(e.stored, sh[0])
		}
	}
	return e
}

func c10Body(c c10Case) []byte {
	shapes := c10DocShapes()
	eol := "\n"
	if c.CRLF {
		eol = "\r\n"
	}
	var b strings.Builder
	for i, it := range c.Items {
		if it.Blank {
			b.WriteString(eol)
		}
		b.WriteString(actionLine(it.Action))
		b.WriteString(eol)
		b.WriteString(shapes[it.Doc][0])
		if !(c.NoFinal && i == len(c.Items)-1) {
			b.WriteString(eol)
		}
	}
	return []byte(b.String())
}

func c10Run(r *vlib.Run, h http.Handler, cap *capture, c c10Case) {
	r.Add("evaluations", 1)
	body := c10Body(c)
	cap.mu.Lock()
	cap.docs, cap.metas, cap.calls = nil, nil, 0
	cap.mu.Unlock()
	var rd *bytes.Reader
	req := httptest.NewRequest("POST", "/_bulk", nil)
	if c.Gzip {
		var zb bytes.Buffer
		parts := [][]byte{body}
		if c.GzipCut > 0 && c.GzipCut < len(body) {
			parts = [][]byte{body[:c.GzipCut], body[c.GzipCut:]}
		}
		for _, p := range parts {
			zw := gzip.NewWriter(&zb)
			zw.Write(p)
			zw.Close()
		}
		rd = bytes.NewReader(zb.Bytes())
		req.Header.Set("Content-Encoding", "gzip")
	} else {
		rd = bytes.NewReader(body)
	}
	req.Body = http.NoBody
	req = httptest.NewRequest("POST", "/_bulk", rd)
	if c.Gzip {
		req.Header.Set("Content-Encoding", "gzip")
	}
	rec := httptest.NewRecorder()
	t0 := time.Now()
	if p := vlib.Catch(func() { h.ServeHTTP(rec, req) }); p != nil {
		r.Violation(fmt.Sprintf("bulk handler panics: %v", p), c, fmt.Sprintf("body %q", body))
		return
	}
	t1 := time.Now()
	cap.mu.Lock()
	stored := cap.docs
	metas := cap.metas
	calls := cap.calls
	cap.mu.Unlock()
	var kinds []string
	for _, it := range c.Items {
		kinds = append(kinds, it.Action+"/"+it.Doc)
	}
	sig := func(kind string) string {
		return fmt.Sprintf("%s items=%v crlf=%v nofinal=%v gzip=%v cut=%d", kind, kinds, c.CRLF, c.NoFinal, c.Gzip, c.GzipCut)
	}
	ok2xx := rec.Code >= 200 && rec.Code < 300
	detail := fmt.Sprintf("body %q\nstatus %d response %q\nstored %q", body, rec.Code, rec.Body.String(), stored)
	type viol struct{ sig, detail string }
	judge := func(exp c10Expect) (vs []viol) {
		report := func(sg string, _ c10Case, d string) { vs = append(vs, viol{sg, d}) }
		c10Judge(report, sig, exp, c, ok2xx, calls, stored, metas, rec.Body.Bytes(), detail, t0, t1)
		return vs
	}
	expA := c10Expected(c, 0)
	vs := judge(expA)
	if expA.ambiguous > 0 && !expA.reject && len(vs) > 0 {
		// a document exactly as long as the limit may be read either way, but the whole outcome must
		// be the one of ONE assignment of readings to those documents
		for m := 1; m < 1<<expA.ambiguous && len(vs) > 0; m++ {
			if vb := judge(c10Expected(c, m)); len(vb) == 0 {
				vs = nil
			}
		}
		for i := range vs {
			vs[i].sig += " (under every reading of the documents exactly as long as the limit)"
		}
	}
	for _, v := range vs {
		r.Violation(v.sig, c, v.detail)
	}
	if len(vs) == 0 && len(expA.stored) > 0 {
		r.Distinct("nontrivial", string(body)+fmt.Sprint(c.Gzip, c.GzipCut))
	}
}

func c10Judge(violation func(string, c10Case, string), sig func(string) string, exp c10Expect, c c10Case, ok2xx bool, calls int, stored [][]byte, metas [][]frac.MetaData, respBody []byte, detail string, t0, t1 time.Time) {
	r := struct{ Violation func(string, c10Case, string) }{violation}
	if exp.reject {
		if ok2xx {
			r.Violation(sig("malformed request accepted"), c, detail)
		}
		if calls != 0 {
			r.Violation(sig("rejected request stored documents"), c, detail)
		}
		return
	}
	if !ok2xx {
		r.Violation(sig("well-formed request rejected"), c, detail)
		return
	}
	if len(stored) != len(exp.stored) {
		r.Violation(sig("stored count"), c, fmt.Sprintf("%s\nwant %q", detail, exp.stored))
		return
	}
	for i := range stored {
		if string(stored[i]) != exp.stored[i] {
			r.Violation(sig("stored bytes differ"), c, fmt.Sprintf("%s\nwant %q", detail, exp.stored))
			return
		}
	}
	wantCalls := 1
	if len(exp.stored) == 0 {
		wantCalls = 0
	}
	if calls != wantCalls {
		r.Violation(sig("store calls"), c, fmt.Sprintf("%s\ncalls %d want %d", detail, calls, wantCalls))
	}
	// response lists exactly that many created items
	var resp struct {
		Errors bool              `json:"errors"`
		Items  []json.RawMessage `json:"items"`
	}
	if err := json.Unmarshal(respBody, &resp); err != nil || len(resp.Items) != len(exp.stored) || resp.Errors {
		r.Violation(sig("response items"), c, fmt.Sprintf("%s\nerr=%v items=%d want %d", detail, err, len(resp.Items), len(exp.stored)))
	}
	// metas: one per document (no nested mapping here), sizes match, IDs distinct, time = receive time window
	if len(exp.stored) > 0 {
		ms := metas[0]
		if len(ms) != len(exp.stored) {
			r.Violation(sig("meta count"), c, fmt.Sprintf("%s\nmetas %d", detail, len(ms)))
			return
		}
		seen := map[seq.ID]bool{}
		for i, md := range ms {
			if int(md.Size) != len(exp.stored[i]) {
				r.Violation(sig("meta size"), c, fmt.Sprintf("%s\nmeta %d size %d", detail, i, md.Size))
			}
			if seen[md.ID] {
				r.Violation(sig("duplicate id in one bulk"), c, detail)
			}
			seen[md.ID] = true
			mid := int64(md.ID.MID)
			if mid < t0.UnixMilli() || mid > t1.UnixMilli() {
				r.Violation(sig("id time is not the receive time"), c, fmt.Sprintf("%s\nmid %d window [%d,%d]", detail, mid, t0.UnixMilli(), t1.UnixMilli()))
			}
		}
	}
}

// ---- (B) time rule ----

func c10Time(r *vlib.Run, ing *bulk.Ingestor, cap *capture, drift, future time.Duration, c c10Case) {
	r.Add("evaluations", 1)
	reqTime := time.Date(2024, 3, 5, 10, 0, 0, 0, time.UTC)
	docTime := reqTime.Add(time.Duration(c.Offset) * time.Millisecond)
	if c.Years != 0 {
		docTime = reqTime.AddDate(c.Years, 0, 0)
	}
	var val string
	parsable := true
	switch c.Format {
	case "es":
		val = docTime.Format(consts.ESTimeFormat)
	case "rfc3339nano":
		val = docTime.Format(time.RFC3339Nano)
	case "rfc3339":
		val = docTime.Format(time.RFC3339)
		docTime = docTime.Truncate(time.Second)
	case "garbage":
		val, parsable = "yesterday", false
	case "empty":
		val, parsable = "", false
	}
	doc := fmt.Sprintf(`{"%s":"%s","m":"x"}`, c.Field, val)
	cap.mu.Lock()
	cap.docs, cap.metas, cap.calls = nil, nil, 0
	cap.mu.Unlock()
	sent := false
	n, err := ing.ProcessDocuments(context.Background(), reqTime, func() ([]byte, error) {
		if sent {
			return nil, nil
		}
		sent = true
		return []byte(doc), nil
	})
	sig := fmt.Sprintf("time-rule field=%s format=%s offset_ms=%d offset_years=%d", c.Field, c.Format, c.Offset, c.Years)
	if err != nil || n != 1 {
		r.Violation(sig+" not stored", c, fmt.Sprintf("doc %s err=%v n=%d", doc, err, n))
		return
	}
	cap.mu.Lock()
	md := cap.metas[0][0]
	stored := string(cap.docs[0])
	cap.mu.Unlock()
	if stored != doc {
		r.Violation(sig+" bytes changed", c, fmt.Sprintf("stored %q want %q", stored, doc))
	}
	within := parsable && c.Field != "other" && !docTime.Before(reqTime.Add(-drift)) && !docTime.After(reqTime.Add(future))
	want := reqTime
	if within {
		want = docTime
	}
	if int64(md.ID.MID) != want.UnixMilli() {
		r.Violation(sig, c, fmt.Sprintf("doc %s: MID %d, want %d (request time %d, document time %d, within drift=%v)", doc, md.ID.MID, want.UnixMilli(), reqTime.UnixMilli(), docTime.UnixMilli(), within))
	}
	r.Distinct("nontrivial", sig)
}

// ---- (D) documents that are not valid JSON reject the whole request ----
// Shapes that are invalid both under RFC 8259 and in the dialect of the store's decoder. (The decoder is laxer
// than the RFC for number notation — 01, 1e, -, .5, 1., +1 — and inside strings — unknown escapes, raw control
// characters, broken \\u escapes; such documents are stored verbatim. Those shapes are not judged: see DESIGN §5.)

var c10InvalidDocs = [][2]string{
	{"num-hex", `{"a":0x10}`}, {"literal-nan", `{"a":NaN}`}, {"literal-truncated", `{"a":tru}`}, {"literal-case", `{"a":True}`},
	{"string-single-quotes", `{"a":'x'}`}, {"string-unterminated", `{"a":"x}`}, {"trailing-comma", `{"a":1,}`},
	{"missing-comma", `{"a":1 "b":2}`}, {"missing-colon", `{"a" 1}`}, {"missing-value", `{"a":}`}, {"double-comma", `{"a":1,,"b":2}`},
	{"key-not-string", `{1:2}`}, {"trailing-garbage", `{"a":1}x`}, {"two-values", `{"a":1}{"b":2}`}, {"unclosed-array", `{"a":[1,2}`},
	{"nested-unclosed", `{"a":{"b":1}`},
}

func c10Invalid(r *vlib.Run, h http.Handler, cap *capture, c c10Case) {
	r.Add("evaluations", 1)
	var doc string
	for _, d := range c10InvalidDocs {
		if d[0] == c.Invalid {
			doc = d[1]
		}
	}
	shapes := c10DocShapes()
	body := actionLine("create") + "\n" + shapes["obj"][0] + "\n" + actionLine("index") + "\n" + doc + "\n" + actionLine("create") + "\n" + shapes["obj2"][0] + "\n"
	cap.mu.Lock()
	cap.docs, cap.metas, cap.calls = nil, nil, 0
	cap.mu.Unlock()
	req := httptest.NewRequest("POST", "/_bulk", strings.NewReader(body))
	rec := httptest.NewRecorder()
	if p := vlib.Catch(func() { h.ServeHTTP(rec, req) }); p != nil {
		r.Violation(fmt.Sprintf("bulk handler panics on an invalid document shape=%s: %v", c.Invalid, p), c, fmt.Sprintf("body %q", body))
		return
	}
	cap.mu.Lock()
	calls, stored := cap.calls, cap.docs
	cap.mu.Unlock()
	if rec.Code >= 200 && rec.Code < 300 || calls != 0 {
		r.Violation("a document that is not valid JSON is accepted shape="+c.Invalid, c, fmt.Sprintf("document %q\nstatus %d response %q\nstore calls %d stored %q", doc, rec.Code, rec.Body.String(), calls, stored))
	}
	r.Distinct("nontrivial", "invalid|"+c.Invalid)
}

// ---- (C) time rule over sequences: the ID time of a document depends on that document only ----

// c10TSpecs: time fields of a document as (field, offset in ms; 1<<40 = unparsable value).
var c10TSpecs = [][][2]any{
	{{"ts", -1000}},
	{{"time", -2000}},
	{{"timestamp", -3000}},
	{{"timestamp", -3000}, {"ts", -1000}},
	{{"time", -2000}, {"ts", -1000}},
	{{"timestamp", -3000}, {"time", -2000}},
	{{"ts", -1000}, {"timestamp", -3000}}, // the order of the keys in the document does not matter
	{{"timestamp", 1 << 40}, {"ts", -1000}},
	{{"timestamp", -11000}, {"ts", -1000}}, // the first field that parses decides, also when it is out of drift
	{{"ts", -11000}},
	{},
}

func c10TSeq(r *vlib.Run, ing *bulk.Ingestor, cap *capture, drift, future time.Duration, c c10Case) {
	r.Add("evaluations", 1)
	reqTime := time.Date(2024, 3, 5, 10, 0, 0, 0, time.UTC)
	var docs []string
	var want []int64
	for i, si := range c.TSeq {
		var parts []string
		exp, decided := reqTime, false
		for _, prio := range []string{"timestamp", "time", "ts"} {
			for _, f := range c10TSpecs[si] {
				if f[0].(string) != prio || decided {
					continue
				}
				if off := f[1].(int); off != 1<<40 {
					decided = true
					dt := reqTime.Add(time.Duration(off) * time.Millisecond)
					if !dt.Before(reqTime.Add(-drift)) && !dt.After(reqTime.Add(future)) {
						exp = dt
					}
				}
			}
		}
		for _, f := range c10TSpecs[si] {
			v := "yesterday"
			if off := f[1].(int); off != 1<<40 {
				v = reqTime.Add(time.Duration(off) * time.Millisecond).Format(consts.ESTimeFormat)
			}
			parts = append(parts, fmt.Sprintf(`"%s":"%s"`, f[0], v))
		}
		parts = append(parts, fmt.Sprintf(`"m":"d%d"`, i))
		docs = append(docs, "{"+strings.Join(parts, ",")+"}")
		want = append(want, exp.UnixMilli())
	}
	sig := fmt.Sprintf("time-rule sequence specs=%v split=%v", c.TSeq, c.TSplit)
	groups := [][]int{}
	if c.TSplit {
		for i := range docs {
			groups = append(groups, []int{i})
		}
	} else {
		all := []int{}
		for i := range docs {
			all = append(all, i)
		}
		groups = append(groups, all)
	}
	for _, g := range groups {
		cap.mu.Lock()
		cap.docs, cap.metas, cap.calls = nil, nil, 0
		cap.mu.Unlock()
		k := 0
		n, err := ing.ProcessDocuments(context.Background(), reqTime, func() ([]byte, error) {
			if k == len(g) {
				return nil, nil
			}
			k++
			return []byte(docs[g[k-1]]), nil
		})
		if err != nil || n != len(g) {
			r.Violation(sig+" not stored", c, fmt.Sprintf("docs %q err=%v n=%d", docs, err, n))
			return
		}
		cap.mu.Lock()
		stored, metas := cap.docs, cap.metas[0]
		cap.mu.Unlock()
		for j, di := range g {
			if string(stored[j]) != docs[di] {
				r.Violation(sig+" bytes changed", c, fmt.Sprintf("stored %q want %q", stored[j], docs[di]))
			}
			if int64(metas[j].ID.MID) != want[di] {
				r.Violation(sig, c, fmt.Sprintf("document %d of %q: MID %d, want %d (request time %d)", di, docs, metas[j].ID.MID, want[di], reqTime.UnixMilli()))
			}
		}
	}
	r.Distinct("nontrivial", sig)
}

func TestVerifC10(t *testing.T) {
	r := vlib.NewRun("C10")
	cp := &capture{}
	drift, future := 10*time.Second, 3*time.Second
	ing := bulk.NewIngestor(bulk.IngestorConfig{MaxInflightBulks: 4, AllowedTimeDrift: drift, FutureAllowedTimeDrift: future,
		MappingProvider: mp{seq.Mapping{"a": seq.NewSingleType(seq.TokenizerTypeKeyword, "", 0), "msg": seq.NewSingleType(seq.TokenizerTypeText, "", 0), "Service": seq.NewSingleType(seq.TokenizerTypeKeyword, "", 0), "t": seq.NewSingleType(seq.TokenizerTypeKeyword, "", 0), "m": seq.NewSingleType(seq.TokenizerTypeKeyword, "", 0)}},
		MaxTokenSize: 72, MaxDocumentSize: c10MaxDoc, DocsZSTDCompressLevel: 1, MetasZSTDCompressLevel: 1}, cp)
	defer ing.Stop()
	h := proxyapi.NewBulkHandler(ing, c10MaxDoc)
	var rc c10Case
	if r.LoadReplay(&rc) {
		if rc.Field != "" {
			c10Time(r, ing, cp, drift, future, rc)
		} else if rc.Invalid != "" {
			c10Invalid(r, h, cp, rc)
		} else if len(rc.TSeq) > 0 {
			c10TSeq(r, ing, cp, drift, future, rc)
		} else {
			c10Run(r, h, cp, rc)
		}
		r.Finish(t, "model_checking", "replay", nil, nil)
		return
	}
	// ---- (A) bodies ----
	maxItems := 3
	docNames := []string{"obj", "obj2", "objnest", "empty{}", "array", "string", "null", "trunc", "unquoted", "lonebrace", "emptyline", "padlead", "padtrail", "nbsptail", "len62", "len63", "len64", "len65", "len66", "len127", "len128", "len129"}
	if r.Thorough() {
		maxItems = 4
		docNames = append(docNames, "number", "len61", "len67")
	}
	var bodies []c10Case
	var rec func(cur []c10Item)
	rec = func(cur []c10Item) {
		if len(cur) > 0 {
			for _, crlf := range []bool{false, true} {
				for _, nf := range []bool{false, true} {
					bodies = append(bodies, c10Case{Items: append([]c10Item{}, cur...), CRLF: crlf, NoFinal: nf, Gzip: (len(bodies)%3 == 0)})
					if len(bodies)%9 == 1 { // the same body as two gzip members: cut after the first line, and in the middle
						b := c10Body(bodies[len(bodies)-1])
						for _, cut := range []int{bytes.IndexByte(b, '\n') + 1, len(b) / 2} {
							if cut > 0 && cut < len(b) {
								bodies = append(bodies, c10Case{Items: append([]c10Item{}, cur...), CRLF: crlf, NoFinal: nf, Gzip: true, GzipCut: cut})
							}
						}
					}
				}
			}
		}
		if len(cur) == maxItems {
			return
		}
		for _, d := range docNames {
			// the action alternates create/index; bad / long actions and blank lines are injected by position below
			a := "create"
			if len(cur)%2 == 1 {
				a = "index"
			}
			rec(append(cur, c10Item{Action: a, Doc: d}))
		}
	}
	rec(nil)
	// action-line variants: bad action at position 0..5, long action, blank lines before actions
	for pos := 0; pos < 7; pos++ {
		var items []c10Item
		for i := 0; i < 7; i++ {
			a := "create"
			if i == pos {
				a = "bad"
			}
			items = append(items, c10Item{Action: a, Doc: "obj", Blank: i%2 == 0})
		}
		bodies = append(bodies, c10Case{Items: items}, c10Case{Items: items, CRLF: true, Gzip: true})
	}
	bodies = append(bodies, c10Case{Items: []c10Item{{Action: "create", Doc: "obj"}, {Action: "long", Doc: "obj"}}})
	for i := range bodies {
		if r.Expired() {
			break
		}
		c10Run(r, h, cp, bodies[i])
	}
	r.Sample(bodies[len(bodies)/2])
	// ---- (B) time rule ----
	d, f := drift.Milliseconds(), future.Milliseconds()
	offsets := []int64{0, -(d - 1), -d, -(d + 1), (f - 1), f, (f + 1), -1000, 1000, -3600_000, 86400_000}
	for _, field := range []string{"timestamp", "time", "ts", "other"} {
		for _, format := range []string{"es", "rfc3339nano", "rfc3339", "garbage", "empty"} {
			for _, off := range offsets {
				if format == "rfc3339" && off%1000 != 0 {
					continue
				}
				c10Time(r, ing, cp, drift, future, c10Case{Field: field, Format: format, Offset: off})
			}
		}
	}
	for _, field := range []string{"timestamp", "time", "ts"} {
		for _, format := range []string{"es", "rfc3339nano", "rfc3339"} {
			for _, years := range []int{-1000, -300, -293, 293, 300, 1000, 7000} {
				c10Time(r, ing, cp, drift, future, c10Case{Field: field, Format: format, Years: years})
			}
		}
	}
	r.Sample(c10Case{Field: "ts", Format: "es", Offset: -(d + 1)})
	// ---- (D) RFC-invalid documents ----
	for _, d := range c10InvalidDocs {
		c10Invalid(r, h, cp, c10Case{Invalid: d[0]})
	}
	// ---- (C) sequences ----
	seqLen := 2
	if r.Thorough() {
		seqLen = 3
	}
	var recT func(cur []int)
	recT = func(cur []int) {
		if len(cur) > 0 {
			c10TSeq(r, ing, cp, drift, future, c10Case{TSeq: append([]int{}, cur...)})
			if len(cur) > 1 {
				c10TSeq(r, ing, cp, drift, future, c10Case{TSeq: append([]int{}, cur...), TSplit: true})
			}
		}
		if len(cur) == seqLen || r.Expired() {
			return
		}
		for i := range c10TSpecs {
			recT(append(cur, i))
		}
	}
	recT(nil)
	ev := r.Get("evaluations")
	r.Finish(t, "model_checking",
		fmt.Sprintf("bodies: every sequence of <=%d (action, document) items over %d document shapes (objects incl. nested/escaped/empty, non-objects, three invalid-JSON shapes, empty line, objects padded with JSON whitespace (stored with the padding), an object followed by a no-break space (invalid), object lines of 62..66 and 127..129 bytes around and at twice the %d-byte document/buffer limit) x {LF,CRLF} x {final newline, none}, gzip on every third, every ninth also as two concatenated gzip members (cut after the first line and in the middle); plus bad action lines at positions 0..6, an over-long action line and blank lines before actions; through proxyapi.BulkHandler (httptest) over a real bulk.Ingestor with a capturing storage client. Expected outcome from a reference reading of the items: reject (non-2xx, no store call) or the exact ordered list of stored byte strings, one store call, that many response items, distinct IDs timed inside the receive window; a document exactly as long as the limit may be read either way (stored or skipped), but the whole outcome must be the one of one of the two readings. time rule: 4 field names x 5 formats x 11 offsets around both drift borders plus documents 293..7000 years in the past / future, through Ingestor.ProcessDocuments with a fixed request time; every sequence of <=%d documents over 11 time-field shapes (one or two of timestamp/time/ts, unparsable first field, first field out of drift, none) through one request and through one request per document (pooled processors): each document's ID time depends on that document only", maxItems, len(docNames), c10MaxDoc, seqLen),
		map[string]any{
			"states":                        len(bodies),
			"transitions":                   ev,
			"traces_validated_against_impl": ev,
		},
		[]string{"the three invalid-JSON shapes are invalid under every reading (truncated object, unquoted key, lone brace)", "a document whose effective line length equals the limit may be stored or skipped; the outcome must match one of the two readings completely"})
}
