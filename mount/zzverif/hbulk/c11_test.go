package hbulk

// C11 — whatever the indexer tokenizes, the query language can find.
// Every value up to a length bound over a rune alphabet chosen per shortcut of the tokenizers / lexer is
// indexed through the real ingestion path (bulk.Ingestor.ProcessDocuments with a capturing storage
// client; metas decoded) under every mapping type / size limit / case / partial-indexing configuration;
// queries are derived by rule from the value (whole value, each word, each leading path, existence), in
// every quoting style, parsed by the real ParseSeqQL and evaluated on the emitted token set.

import (
	"context"
	"encoding/binary"
	"fmt"
	"strings"
	"sync"
	"testing"
	"time"
	"unicode"
	"unicode/utf8"

	"github.com/ozontech/seq-db/conf"
	"github.com/ozontech/seq-db/disk"
	"github.com/ozontech/seq-db/frac"
	"github.com/ozontech/seq-db/parser"
	"github.com/ozontech/seq-db/proxy/bulk"
	"github.com/ozontech/seq-db/seq"
	"github.com/ozontech/seq-db/zzverif/vlib"
)

type capture struct {
	mu    sync.Mutex
	calls int
	docs  [][]byte
	metas [][]frac.MetaData
	err   error
}

func (c *capture) StoreDocuments(_ context.Context, count int, docs, metas []byte) error {
	c.mu.Lock()
	defer c.mu.Unlock()
	c.calls++
	d, err := disk.DocBlock(docs).DecompressTo(nil)
	if err != nil {
		return err
	}
	m, err := disk.DocBlock(metas).DecompressTo(nil)
	if err != nil {
		return err
	}
	var ds [][]byte
	for len(d) > 0 {
		n := binary.LittleEndian.Uint32(d)
		ds = append(ds, append([]byte{}, d[4:4+n]...))
		d = d[4+n:]
	}
	var ms []frac.MetaData
	for len(m) > 0 {
		n := binary.LittleEndian.Uint32(m)
		var md frac.MetaData
		if err := md.UnmarshalBinary(append([]byte{}, m[4:4+n]...)); err != nil {
			return err
		}
		ms = append(ms, md)
		m = m[4+n:]
	}
	if len(ds) != count {
		return fmt.Errorf("count %d but %d docs in block", count, len(ds))
	}
	c.docs = append(c.docs, ds...)
	c.metas = append(c.metas, ms)
	return c.err
}

type mp struct{ m seq.Mapping }

func (p mp) GetMapping() seq.Mapping        { return p.m }
func (p mp) GetRawMapping() *seq.RawMapping { return seq.NewRawMapping(p.m) }

type c11Config struct {
	Mapping   string `json:"mapping"` // keyword text path exists multi object object-multi nil
	Size      int    `json:"size"`    // per-type size limit (0 = default)
	MaxToken  int    `json:"max_token"`
	CaseSens  bool   `json:"case_sensitive"`
	Partial   bool   `json:"partial"`
}

// mapping returns the mapping, the JSON path of the field, and the (field name, type) pairs to query:
// name@type. The mapping is written as the YAML text an operator would write and read by the real
// seq.ReadMapping (multi-type fields at the top level and inside an object included).
func (c c11Config) mapping() (seq.Mapping, string, []string) {
	typed := func(name, typ string) string { // single type with a size limit: the `types:` syntax carries sizes
		return fmt.Sprintf("  - name: %q\n    types:\n      - type: %q\n        size: %d\n", name, typ, c.Size)
	}
	var yaml, jsonPath string
	var fields []string
	switch c.Mapping {
	case "keyword", "text", "path", "exists":
		yaml, jsonPath, fields = "mapping-list:\n"+typed("f", c.Mapping), "f", []string{"f@" + c.Mapping}
	case "multi":
		yaml = fmt.Sprintf("mapping-list:\n  - name: \"f\"\n    types:\n      - type: \"text\"\n        size: %d\n      - title: \"kw\"\n        type: \"keyword\"\n        size: %d\n", c.Size, c.Size)
		jsonPath, fields = "f", []string{"f@text", "f.kw@keyword"}
	case "object":
		yaml = fmt.Sprintf("mapping-list:\n  - name: \"o\"\n    type: \"object\"\n    mapping-list:\n      - name: \"f\"\n        types:\n          - type: \"keyword\"\n            size: %d\n", c.Size)
		jsonPath, fields = "o.f", []string{"o.f@keyword"}
	case "object-multi":
		yaml = fmt.Sprintf("mapping-list:\n  - name: \"o\"\n    type: \"object\"\n    mapping-list:\n      - name: \"f\"\n        types:\n          - type: \"text\"\n            size: %d\n          - title: \"kw\"\n            type: \"keyword\"\n            size: %d\n", c.Size, c.Size)
		jsonPath, fields = "o.f", []string{"o.f@text", "o.f.kw@keyword"}
	default:
		return nil, "f", []string{"f@keyword"}
	}
	m, err := seq.ReadMapping([]byte(yaml))
	if err != nil {
		panic(fmt.Sprintf("mapping %s: %v\n%s", c.Mapping, err, yaml))
	}
	return m, jsonPath, fields
}

var c11Alphabet = []string{"a", "A", "1", "_", "*", "-", "/", " ", `"`, `\`, "é", "İ", "K", "²", "\xff", "\r", "\n"}

func c11JSONKind(raw string) string {
	switch {
	case raw == "true" || raw == "false":
		return "boolean"
	case raw == "null":
		return "null"
	case strings.HasPrefix(raw, "["):
		return "array"
	case strings.HasPrefix(raw, "{"):
		return "object"
	case strings.HasPrefix(raw, `"`):
		return "string"
	}
	return "number"
}

func jsonString(v string) string {
	var b strings.Builder
	b.WriteByte('"')
	for i := 0; i < len(v); i++ {
		switch v[i] {
		case '"', '\\':
			b.WriteByte('\\')
		case '\r':
			b.WriteString(`\r`)
			continue
		case '\n':
			b.WriteString(`\n`)
			continue
		}
		b.WriteByte(v[i])
	}
	b.WriteByte('"')
	return b.String()
}

// quoting styles of a literal value (no wildcard meant): returns query literal texts
func literals(v string) map[string]string {
	res := map[string]string{}
	esc := func(q byte) string {
		var b strings.Builder
		b.WriteByte(q)
		for i := 0; i < len(v); i++ {
			c := v[i]
			if c == q || c == '\\' || c == '*' {
				b.WriteByte('\\')
			}
			b.WriteByte(c)
		}
		b.WriteByte(q)
		return b.String()
	}
	res["double"] = esc('"')
	res["single"] = esc('\'')
	if !strings.ContainsAny(v, "`") {
		res["raw"] = "`" + v + "`"
	}
	bare := v != ""
	for _, r := range v {
		if !(r >= 'a' && r <= 'z' || r >= 'A' && r <= 'Z' || r >= '0' && r <= '9' || r == '_') {
			bare = false
		}
	}
	low := strings.ToLower(v)
	if bare && low != "and" && low != "or" && low != "not" && low != "in" {
		res["bare"] = v
	}
	return res
}

func isWordRune(r rune) bool {
	return unicode.IsLetter(r) || unicode.IsNumber(r) || r == '_' || r == '*'
}

// words: maximal runs of word runes (invalid bytes are separators)
func words(v string) []string {
	var res []string
	cur := ""
	for len(v) > 0 {
		r, n := utf8.DecodeRuneInString(v)
		if r == utf8.RuneError && n == 1 {
			if cur != "" {
				res = append(res, cur)
			}
			cur = ""
			v = v[1:]
			continue
		}
		if isWordRune(r) {
			cur += v[:n]
		} else {
			if cur != "" {
				res = append(res, cur)
			}
			cur = ""
		}
		v = v[n:]
	}
	if cur != "" {
		res = append(res, cur)
	}
	return res
}

func pathPrefixes(v string) []string {
	var res []string
	for i := 1; i < len(v); i++ {
		if v[i] == '/' {
			res = append(res, v[:i])
		}
	}
	return append(res, v)
}

// matchTerms: literal text terms separated by wildcard terms against a token
func matchTerms(terms []parser.Term, tok string) bool {
	if len(terms) == 0 {
		return tok == ""
	}
	if terms[0].Kind == parser.TermSymbol {
		for i := 0; i <= len(tok); i++ {
			if matchTerms(terms[1:], tok[i:]) {
				return true
			}
		}
		return false
	}
	d := terms[0].Data
	return strings.HasPrefix(tok, d) && matchTerms(terms[1:], tok[len(d):])
}

func evalAST(n *parser.ASTNode, toks map[string][]string) (bool, error) {
	switch t := n.Value.(type) {
	case *parser.Literal:
		for _, v := range toks[t.Field] {
			if matchTerms(t.Terms, v) {
				return true, nil
			}
		}
		return false, nil
	case *parser.Logical:
		var vs []bool
		for _, c := range n.Children {
			v, err := evalAST(c, toks)
			if err != nil {
				return false, err
			}
			vs = append(vs, v)
		}
		switch t.Operator {
		case parser.LogicalAnd:
			return vs[0] && vs[1], nil
		case parser.LogicalOr:
			return vs[0] || vs[1], nil
		case parser.LogicalNAnd:
			return !vs[0] && vs[1], nil
		case parser.LogicalNot:
			return !vs[0], nil
		}
	}
	return false, fmt.Errorf("unsupported node %T", n.Value)
}

type c11Case struct {
	Config c11Config `json:"config"`
	Value  string    `json:"value"`
	Query  string    `json:"query,omitempty"`
}

func c11Index(ing *bulk.Ingestor, cap *capture, jsonPath, v string) (map[string][]string, string, error) {
	doc := `{"` + jsonPath + `":` + jsonString(v) + `}`
	if strings.Contains(jsonPath, ".") {
		parts := strings.SplitN(jsonPath, ".", 2)
		doc = `{"` + parts[0] + `":{"` + parts[1] + `":` + jsonString(v) + `}}`
	}
	sent := false
	cap.mu.Lock()
	cap.metas, cap.docs = nil, nil
	cap.mu.Unlock()
	_, err := ing.ProcessDocuments(context.Background(), time.Now(), func() ([]byte, error) {
		if sent {
			return nil, nil
		}
		sent = true
		return []byte(doc), nil
	})
	if err != nil {
		return nil, doc, err
	}
	toks := map[string][]string{}
	cap.mu.Lock()
	defer cap.mu.Unlock()
	for _, ms := range cap.metas {
		for _, md := range ms {
			for _, t := range md.Tokens {
				toks[string(t.Key)] = append(toks[string(t.Key)], string(t.Value))
			}
		}
	}
	return toks, doc, nil
}

// judgeValue indexes one value under cfg and checks all derived queries.
func c11Judge(r *vlib.Run, cfg c11Config, ing *bulk.Ingestor, cap *capture, m seq.Mapping, jsonPath string, fields []string, v string) {
	toks, doc, err := c11Index(ing, cap, jsonPath, v)
	cse := c11Case{Config: cfg, Value: v}
	r.Add("evaluations", 1)
	if err != nil {
		if v == "" || utf8.ValidString(v) {
			r.Violation(fmt.Sprintf("index-error class=%s", valueClass(v)), cse, fmt.Sprintf("cfg %s doc %q: %v", vlib.JSON(cfg), doc, err))
		}
		return // a document the JSON decoder rejects is not ingested at all
	}
	check := func(kind, query string, must bool) {
		r.Add("evaluations", 1)
		r.Add("queries", 1)
		c := cse
		c.Query = query
		var ast parser.SeqQLQuery
		var perr error
		if p := vlib.Catch(func() { ast, perr = parser.ParseSeqQL(query, m) }); p != nil {
			r.Violation(fmt.Sprintf("%s query panics cfg=%s", kind, vlib.JSON(cfg)), c, fmt.Sprintf("value %q query %q: %v", v, query, p))
			return
		}
		if perr != nil {
			if must {
				r.Violation(fmt.Sprintf("%s query rejected style=%s class=%s err=%s", kind, styleOf(query), valueClass(v), perr.Error()[:min(40, len(perr.Error()))]), c, fmt.Sprintf("cfg %s value %q query %q tokens %q: %v", vlib.JSON(cfg), v, query, toks, perr))
			}
			return
		}
		ok, eerr := evalAST(ast.Root, toks)
		if eerr != nil {
			return
		}
		if !ok && must {
			cls := valueClass(v)
			if strings.Contains(cls, "invalid-utf8") {
				cls = "invalid-utf8"
			}
			for _, ts := range toks {
				for _, tk := range ts {
					if !utf8.ValidString(tk) {
						cls = "invalid-utf8-token"
					}
				}
			}
			cut := (cfg.Size != 0 && len(v) > cfg.Size) || len(v) > cfg.MaxToken
			r.Violation(fmt.Sprintf("%s not-found case_sensitive=%v partial=%v over_limit=%v class=%s", kind, cfg.CaseSens, cfg.Partial, cut, cls), c, fmt.Sprintf("cfg %s value %q query %q AST %s emitted tokens %q", vlib.JSON(cfg), v, query, ast.Root.String(), toks))
		}
		if ok {
			r.Distinct("nontrivial", vlib.JSON(cfg)+"|"+v+"|"+query)
		}
		// the same query text in the legacy query language (the default language of a store), for the two spellings
		// both languages share: the double-quoted literal (escapes \" \\ \*) and the bare word
		if st := styleOf(query); st == "double" || st == "bare" || kind == "exists" {
			r.Add("evaluations", 1)
			r.Add("legacy_queries", 1)
			var root *parser.ASTNode
			var lerr error
			if p := vlib.Catch(func() { root, lerr = parser.ParseQuery(query, m) }); p != nil {
				r.Violation(fmt.Sprintf("legacy %s query panics cfg=%s", kind, vlib.JSON(cfg)), c, fmt.Sprintf("value %q query %q: %v", v, query, p))
				return
			}
			if lerr != nil {
				if must {
					r.Violation(fmt.Sprintf("legacy %s query rejected style=%s class=%s err=%s", kind, st, valueClass(v), lerr.Error()[:min(40, len(lerr.Error()))]), c, fmt.Sprintf("cfg %s value %q query %q tokens %q: %v", vlib.JSON(cfg), v, query, toks, lerr))
				}
				return
			}
			lok, eerr := evalAST(root, toks)
			if eerr != nil {
				return
			}
			if !lok && must {
				cls := valueClass(v)
				if strings.Contains(cls, "invalid-utf8") {
					cls = "invalid-utf8"
				}
				r.Violation(fmt.Sprintf("legacy %s not-found case_sensitive=%v partial=%v class=%s", kind, cfg.CaseSens, cfg.Partial, cls), c, fmt.Sprintf("cfg %s value %q query %q AST %s emitted tokens %q", vlib.JSON(cfg), v, query, root.String(), toks))
			}
		}
	}
	for _, ft := range fields {
		parts := strings.SplitN(ft, "@", 2)
		field, typ := parts[0], parts[1]
		// existence of every present field
		check("exists", `_exists_:`+field, true)
		limit := cfg.Size
		switch typ {
		case "keyword", "path":
			if limit == 0 {
				limit = cfg.MaxToken
			}
			indexed := v
			if len(v) > limit {
				if !cfg.Partial {
					continue // skipped as a whole: nothing to find (existence was checked)
				}
				indexed = v[:limit]
			}
			var subjects []string
			if typ == "keyword" {
				subjects = []string{indexed}
			} else {
				subjects = pathPrefixes(indexed)
				if strings.HasPrefix(indexed, "/") && len(indexed) > 1 {
					// a leading separator does not produce the empty prefix
				}
			}
			for _, s := range subjects {
				for _, lit := range literals(s) {
					check(typ, field+":"+lit, true)
				}
			}
		case "text":
			if limit == 0 {
				limit = 32 * 1024
			}
			indexed := v
			if len(v) > limit {
				if !cfg.Partial {
					continue
				}
				indexed = v[:limit]
			}
			ws := words(indexed)
			for i, w := range ws {
				if len(w) > cfg.MaxToken {
					continue // over-long words are skipped
				}
				if len(v) > limit && i == len(ws)-1 && !strings.HasSuffix(indexed, w) {
					continue
				}
				if len(v) > limit && i == len(ws)-1 {
					// the last word of a cut value may itself be cut: it is indexed as its prefix; query by that prefix
				}
				for _, lit := range literals(w) {
					check("text-word", field+":"+lit, true)
				}
			}
		}
	}
}

func styleOf(q string) string {
	i := strings.IndexByte(q, ':')
	if i < 0 || i+1 >= len(q) {
		return "?"
	}
	switch q[i+1] {
	case '"':
		return "double"
	case '\'':
		return "single"
	case '`':
		return "raw"
	}
	return "bare"
}

func valueClass(v string) string {
	var cls []string
	add := func(s string) {
		for _, c := range cls {
			if c == s {
				return
			}
		}
		cls = append(cls, s)
	}
	if !utf8.ValidString(v) {
		add("invalid-utf8")
	}
	for _, r := range v {
		switch {
		case r == 'İ' || r == 'K':
			add("case-width-change")
		case r == '²':
			add("number-not-digit")
		case r > 127 && r != utf8.RuneError:
			add("multibyte")
		case r == '*':
			add("star")
		case r == '"' || r == '\\':
			add("quote-or-backslash")
		case r == ' ':
			add("space")
		case r == '\r' || r == '\n':
			add("line-break")
		}
	}
	if len(cls) == 0 {
		return "plain"
	}
	return strings.Join(cls, "+")
}

func TestVerifC11(t *testing.T) {
	r := vlib.NewRun("C11")
	var rc c11Case
	replay := r.LoadReplay(&rc)
	maxLen := 3
	if r.Thorough() {
		maxLen = 4
	}
	var values []string
	var rec func(cur string, n int)
	rec = func(cur string, n int) {
		values = append(values, cur)
		if n == maxLen {
			return
		}
		for _, a := range c11Alphabet {
			rec(cur+a, n+1)
		}
	}
	rec("", 0)
	var cfgs []c11Config
	for _, mpg := range []string{"keyword", "text", "path", "exists", "multi", "object", "object-multi", "nil"} {
		for _, size := range []int{0, 3} {
			for _, mt := range []int{3, 72} {
				for _, cs := range []bool{false, true} {
					for _, partial := range []bool{false, true} {
						if (mpg == "exists" || mpg == "nil") && size == 3 {
							continue
						}
						cfgs = append(cfgs, c11Config{Mapping: mpg, Size: size, MaxToken: mt, CaseSens: cs, Partial: partial})
					}
				}
			}
		}
	}
	if replay {
		cfgs = []c11Config{rc.Config}
		values = []string{rc.Value}
	}
	for _, cfg := range cfgs {
		if r.Expired() {
			break
		}
		m, jsonPath, fields := cfg.mapping()
		conf.CaseSensitive = cfg.CaseSens
		// one ingestor per worker goroutine (the processor pool is per ingestor)
		type env struct {
			ing *bulk.Ingestor
			cap *capture
		}
		envs := make(chan env, vlib.Workers())
		var all []env
		for i := 0; i < vlib.Workers(); i++ {
			cp := &capture{}
			ing := bulk.NewIngestor(bulk.IngestorConfig{MaxInflightBulks: 4, AllowedTimeDrift: time.Hour, FutureAllowedTimeDrift: time.Hour,
				MappingProvider: mp{m}, MaxTokenSize: cfg.MaxToken, CaseSensitive: cfg.CaseSens, PartialFieldIndexing: cfg.Partial, MaxDocumentSize: 1 << 20,
				DocsZSTDCompressLevel: 1, MetasZSTDCompressLevel: 1}, cp)
			e := env{ing, cp}
			envs <- e
			all = append(all, e)
		}
		vlib.Parallel(len(values), vlib.Workers(), func(i int) {
			e := <-envs
			defer func() { envs <- e }()
			c11Judge(r, cfg, e.ing, e.cap, m, jsonPath, fields, values[i])
		})
		for _, e := range all {
			e.ing.Stop()
		}
		r.Add("configs", 1)
	}
	conf.CaseSensitive = false
	// ---- several fields in one document, values that are not strings (true / false / null / numbers /
	// arrays / objects are indexed in their JSON spelling): every ordered pair of values in two keyword fields,
	// each must be findable by its own spelling (the value of one field must not disturb another field's token)
	if !replay {
		m, err := seq.ReadMapping([]byte("mapping-list:\n  - name: \"f\"\n    type: \"keyword\"\n  - name: \"g\"\n    type: \"keyword\"\n  - name: \"h\"\n    type: \"keyword\"\n"))
		if err != nil {
			panic(err)
		}
		cp := &capture{}
		ing := bulk.NewIngestor(bulk.IngestorConfig{MaxInflightBulks: 4, AllowedTimeDrift: time.Hour, FutureAllowedTimeDrift: time.Hour,
			MappingProvider: mp{m}, MaxTokenSize: 72, MaxDocumentSize: 1 << 20, DocsZSTDCompressLevel: 1, MetasZSTDCompressLevel: 1}, cp)
		vals := []string{`true`, `false`, `null`, `12`, `-0.5`, `"s"`, `[1,2,3]`, `{"x":1}`, `[]`}
		for _, v1 := range vals {
			for _, v2 := range vals {
				for _, v3 := range []string{`"z"`, `true`} {
					doc := `{"f":` + v1 + `,"g":` + v2 + `,"h":` + v3 + `}`
					sent := false
					cp.mu.Lock()
					cp.metas, cp.docs = nil, nil
					cp.mu.Unlock()
					r.Add("evaluations", 1)
					_, err := ing.ProcessDocuments(context.Background(), time.Now(), func() ([]byte, error) {
						if sent {
							return nil, nil
						}
						sent = true
						return []byte(doc), nil
					})
					cse := c11Case{Value: doc}
					if err != nil {
						r.Violation("multi-field document rejected", cse, fmt.Sprintf("doc %s: %v", doc, err))
						continue
					}
					toks := map[string][]string{}
					cp.mu.Lock()
					for _, ms := range cp.metas {
						for _, md := range ms {
							for _, t := range md.Tokens {
								toks[string(t.Key)] = append(toks[string(t.Key)], string(t.Value))
							}
						}
					}
					cp.mu.Unlock()
					for fld, raw := range map[string]string{"f": v1, "g": v2, "h": v3} {
						want := strings.Trim(raw, `"`)
						found := false
						for _, tv := range toks[fld] {
							if tv == want {
								found = true
							}
						}
						if !found {
							r.Violation(fmt.Sprintf("multi-field document: field %s with a %s value is not indexed under its own spelling", fld, c11JSONKind(raw)), cse, fmt.Sprintf("doc %s: field %s carries %s, indexed tokens %q", doc, fld, raw, toks))
						}
					}
					r.Distinct("nontrivial", "multi|"+doc)
				}
			}
		}
		ing.Stop()
	}
	// ---- keyword fields of a document that also carries an array mapped as `nested` (every element is indexed as
	// a sub-document of its own): 0..9 elements, the array before / between / after the parent's fields, elements
	// that hold a nested array themselves; every present keyword field - of the parent and of every element - must
	// be indexed under its value and under _exists_. Each document goes through a fresh ingestor and through one
	// shared by all of them (pooled processors that have / have not grown yet).
	if !replay {
		m, err := seq.ReadMapping([]byte("mapping-list:\n  - name: \"f\"\n    type: \"keyword\"\n  - name: \"g\"\n    type: \"keyword\"\n  - name: \"h\"\n    type: \"keyword\"\n" +
			"  - name: \"n\"\n    type: \"nested\"\n    mapping-list:\n      - name: \"x\"\n        type: \"keyword\"\n      - name: \"z\"\n        type: \"keyword\"\n" +
			"      - name: \"m\"\n        type: \"nested\"\n        mapping-list:\n          - name: \"y\"\n            type: \"keyword\"\n"))
		if err != nil {
			panic(err)
		}
		newIng := func(cp *capture) *bulk.Ingestor {
			return bulk.NewIngestor(bulk.IngestorConfig{MaxInflightBulks: 4, AllowedTimeDrift: time.Hour, FutureAllowedTimeDrift: time.Hour,
				MappingProvider: mp{m}, MaxTokenSize: 72, MaxDocumentSize: 1 << 20, DocsZSTDCompressLevel: 1, MetasZSTDCompressLevel: 1}, cp)
		}
		sharedCp := &capture{}
		shared := newIng(sharedCp)
		type kv struct{ k, v string }
		for k := 0; k <= 9; k++ {
			for inner := 0; inner <= 5; inner += 5 {
				for pos := 0; pos < 3; pos++ {
					var want []kv
					var elems []string
					for e := 0; e < k; e++ {
						el := fmt.Sprintf(`"x":"e%d"`, e)
						want = append(want, kv{"n.x", fmt.Sprintf("e%d", e)})
						if inner > 0 && e == k/2 {
							var ys []string
							for y := 0; y < inner; y++ {
								ys = append(ys, fmt.Sprintf(`{"y":"y%d"}`, y))
								want = append(want, kv{"n.m.y", fmt.Sprintf("y%d", y)})
							}
							el = `"m":[` + strings.Join(ys, ",") + `],` + el + fmt.Sprintf(`,"z":"z%d"`, e)
							want = append(want, kv{"n.z", fmt.Sprintf("z%d", e)})
						}
						elems = append(elems, "{"+el+"}")
					}
					parts := []string{`"f":"a"`, `"g":"b"`, `"h":"c"`}
					arr := `"n":[` + strings.Join(elems, ",") + `]`
					parts = append(parts[:pos], append([]string{arr}, parts[pos:]...)...)
					doc := "{" + strings.Join(parts, ",") + "}"
					want = append(want, kv{"f", "a"}, kv{"g", "b"}, kv{"h", "c"})
					for pass, ing := range []*bulk.Ingestor{nil, shared} {
						cp := sharedCp
						if ing == nil {
							cp = &capture{}
							ing = newIng(cp)
						}
						sent := false
						cp.mu.Lock()
						cp.metas, cp.docs = nil, nil
						cp.mu.Unlock()
						r.Add("evaluations", 1)
						_, err := ing.ProcessDocuments(context.Background(), time.Now(), func() ([]byte, error) {
							if sent {
								return nil, nil
							}
							sent = true
							return []byte(doc), nil
						})
						cse := c11Case{Value: doc}
						if err != nil {
							r.Violation("document with a nested array rejected", cse, fmt.Sprintf("doc %s: %v", doc, err))
						} else {
							toks := map[string]map[string]bool{}
							cp.mu.Lock()
							for _, ms := range cp.metas {
								for _, md := range ms {
									for _, t := range md.Tokens {
										if toks[string(t.Key)] == nil {
											toks[string(t.Key)] = map[string]bool{}
										}
										toks[string(t.Key)][string(t.Value)] = true
									}
								}
							}
							cp.mu.Unlock()
							for _, w := range want {
								if !toks[w.k][w.v] {
									r.Violation(fmt.Sprintf("document with a nested array: keyword field %s is not indexed under its value", w.k), cse, fmt.Sprintf("doc %s (pass %d: 0 fresh ingestor, 1 shared): no token %s:%s; tokens %v", doc, pass, w.k, w.v, toks))
									break
								}
								if !toks[string(seq.ExistsTokenName)][w.k] {
									r.Violation(fmt.Sprintf("document with a nested array: keyword field %s has no existence token", w.k), cse, fmt.Sprintf("doc %s (pass %d): no token _exists_:%s; tokens %v", doc, pass, w.k, toks))
									break
								}
							}
						}
						if pass == 0 {
							ing.Stop()
						}
					}
					r.Distinct("nontrivial", "nested|"+doc)
				}
			}
		}
		shared.Stop()
	}
	r.Sample(c11Case{Config: cfgs[0], Value: "A /é", Query: `f:"a /é"`})
	ev := r.Get("evaluations")
	r.Finish(t, "model_checking",
		fmt.Sprintf("all values of length <=%d over the 17-rune alphabet {CR LF a A 1 _ * - / space \" \\ é İ(lower-case has another width) K(Kelvin) ²(number, not digit) \\xff(invalid)} x mapping {keyword,text,path,exists,text+keyword multi-type,object->keyword,object->text+keyword multi-type,nil}, written as YAML and read by the real seq.ReadMapping, x per-type size limit {default,3} x MaxTokenSize {3,72} x case-sensitive x partial indexing; each value indexed by the real Ingestor.ProcessDocuments (metas decoded); derived queries: whole value (keyword), every maximal word within the token limit (text), every leading path (path), _exists_ (all), each in every quoting style (double, single, raw, bare when lexable), parsed by ParseSeqQL and evaluated on the emitted tokens; the double-quoted and bare spellings and the existence queries are also parsed by the legacy parser (ParseQuery) and evaluated the same way. Documents with three keyword fields carrying every ordered pair of non-string JSON values (true/false/null/numbers/arrays/objects): each field is indexed under its own JSON spelling. Documents with an array mapped as nested (0..9 elements, before / between / after the parent's keyword fields, an element holding a nested array of 5 itself; fresh and shared ingestor): every keyword field of the parent and of every element is indexed under its value and under _exists_. Over-limit values: skipped => only existence is required; partial => the cut prefix is the subject. distinct_nontrivial = distinct (config, value, query) found", maxLen),
		map[string]any{
			"states":                        int64(len(values)) * r.Get("configs"),
			"transitions":                   ev,
			"traces_validated_against_impl": ev,
			"queries":                       r.Get("queries"),
		},
		[]string{"documents whose JSON the decoder rejects (invalid UTF-8 may be one) are not ingested and nothing is required of them", "the matcher used to evaluate the parsed query on the emitted tokens is the harness's (literal terms separated by wildcard terms)"})
}
