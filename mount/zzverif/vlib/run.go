// Package vlib is the shared runtime of the /verif harnesses: evidence writer, violation
// reporting (replay artefacts, known findings), counters and parallel helpers.
package vlib

import (
	"crypto/sha256"
	"encoding/hex"
	"encoding/json"
	"fmt"
	"os"
	"path/filepath"
	"sort"
	"strconv"
	"strings"
	"sync"
	"sync/atomic"
	"time"
)

type Finding struct {
	Property    string `json:"property"`
	Signature   string `json:"signature"` // exact, or prefix when it ends with '*'
	Status      string `json:"status"`    // "known" | "fixed"
	Commit      string `json:"commit,omitempty"`
	Description string `json:"description"`
}

type Run struct {
	ID     string
	Tier   string
	Seed   int64
	Dir    string // /verif
	Replay string // path of replay file or ""
	start  time.Time

	mu         sync.Mutex
	violSigs   map[string]bool
	knownSeen  map[string]bool
	violations int
	samples    []any
	distinct   map[string]map[[16]byte]struct{}
	counters   map[string]*int64
	findings   []Finding
	notes      []string
	Exhaustive bool
	capNote    string
	deadline   time.Time
	collect    bool // sub-run inside a worker: violations are collected, nothing is printed or written
	collected  []SubViolation
}

func VerifDir() string {
	if d := os.Getenv("VERIF_DIR"); d != "" {
		return d
	}
	return "/verif"
}

func NewRun(id string) *Run {
	r := &Run{ID: id, Tier: "quick", Dir: VerifDir(), start: time.Now(), Exhaustive: true,
		violSigs: map[string]bool{}, knownSeen: map[string]bool{}, distinct: map[string]map[[16]byte]struct{}{}, counters: map[string]*int64{}}
	if t := os.Getenv("VERIF_TIER"); t == "thorough" {
		r.Tier = t
	}
	if s := os.Getenv("VERIF_SEED"); s != "" {
		r.Seed, _ = strconv.ParseInt(s, 10, 64)
	}
	r.Replay = os.Getenv("VERIF_REPLAY")
	if b, err := os.ReadFile(filepath.Join(r.Dir, "known_findings.json")); err == nil {
		var kf struct {
			Findings []Finding `json:"findings"`
		}
		if err := json.Unmarshal(b, &kf); err != nil {
			panic("known_findings.json: " + err.Error())
		}
		r.findings = kf.Findings
	}
	// internal horizon: never decides a verdict, only ends a run with exhaustive=false
	if h := os.Getenv("VERIF_HORIZON_S"); h != "" {
		if s, err := strconv.Atoi(h); err == nil && s > 0 {
			r.deadline = r.start.Add(time.Duration(s) * time.Second)
		}
	}
	return r
}

func (r *Run) Thorough() bool { return r.Tier == "thorough" }

// Expired reports whether the internal horizon passed; callers stop enumerating and the run is
// reported as not exhaustive.
func (r *Run) Expired() bool {
	r.mu.Lock()
	v := r.violations
	r.mu.Unlock()
	if v >= 10 {
		r.Cap("stopped after 10 distinct violations")
		return true
	}
	if r.deadline.IsZero() || time.Now().Before(r.deadline) {
		return false
	}
	r.Cap("internal horizon reached")
	return true
}

// Cap records that some bound/cap cut the enumeration short.
func (r *Run) Cap(note string) {
	r.mu.Lock()
	r.Exhaustive = false
	if r.capNote == "" {
		r.capNote = note
	}
	r.mu.Unlock()
}

func (r *Run) Note(format string, a ...any) {
	r.mu.Lock()
	r.notes = append(r.notes, fmt.Sprintf(format, a...))
	r.mu.Unlock()
}

func (r *Run) Counter(name string) *int64 {
	r.mu.Lock()
	defer r.mu.Unlock()
	c, ok := r.counters[name]
	if !ok {
		c = new(int64)
		r.counters[name] = c
	}
	return c
}

func (r *Run) Add(name string, n int64) { atomic.AddInt64(r.Counter(name), n) }
func (r *Run) Get(name string) int64    { return atomic.LoadInt64(r.Counter(name)) }

// Distinct records key under set name; returns true when it was new.
func (r *Run) Distinct(set string, key string) bool {
	h := sha256.Sum256([]byte(key))
	var k [16]byte
	copy(k[:], h[:16])
	r.mu.Lock()
	defer r.mu.Unlock()
	m := r.distinct[set]
	if m == nil {
		m = map[[16]byte]struct{}{}
		r.distinct[set] = m
	}
	if _, ok := m[k]; ok {
		return false
	}
	m[k] = struct{}{}
	return true
}

func (r *Run) DistinctCount(set string) int {
	r.mu.Lock()
	defer r.mu.Unlock()
	return len(r.distinct[set])
}

// Sample keeps up to 8 written-out cases for the evidence file.
func (r *Run) Sample(x any) {
	r.mu.Lock()
	if len(r.samples) < 8 {
		r.samples = append(r.samples, x)
	}
	r.mu.Unlock()
}

func (r *Run) matchFinding(sig string) *Finding {
	for i := range r.findings {
		f := &r.findings[i]
		if f.Property != r.ID || f.Status != "known" {
			continue
		}
		if f.Signature == sig || (strings.HasSuffix(f.Signature, "*") && strings.HasPrefix(sig, strings.TrimSuffix(f.Signature, "*"))) {
			return f
		}
	}
	return nil
}

// Violation reports a property violation. sig identifies the failing input/call site/history
// (used for de-duplication and for matching known findings); replayCase is the JSON-able case that
// `./check <id> --replay <file>` re-executes; detail is free text.
func (r *Run) Violation(sig string, replayCase any, detail string) {
	r.mu.Lock()
	defer r.mu.Unlock()
	if f := r.matchFinding(sig); f != nil && !r.collect {
		if !r.knownSeen[f.Signature] {
			r.knownSeen[f.Signature] = true
			fmt.Printf("KNOWN-FINDING: property=%s %s (%s)\n", r.ID, f.Signature, f.Description)
		}
		return
	}
	if r.violSigs[sig] {
		return
	}
	r.violSigs[sig] = true
	r.violations++
	if r.collect {
		if len(r.collected) < 25 {
			r.collected = append(r.collected, SubViolation{sig, replayCase, detail})
		}
		return
	}
	if r.violations > 25 {
		return // keep counting distinct signatures, stop writing artefacts
	}
	h := sha256.Sum256([]byte(sig))
	dir := filepath.Join(r.Dir, "replays", r.ID)
	os.MkdirAll(dir, 0o755)
	path := filepath.Join(dir, hex.EncodeToString(h[:6])+".json")
	b, _ := json.MarshalIndent(map[string]any{"property": r.ID, "signature": sig, "case": replayCase, "detail": detail}, "", " ")
	os.WriteFile(path, b, 0o644)
	fmt.Printf("VIOLATION property=%s replay=%s\n", r.ID, path)
	fmt.Printf("  signature: %s\n  detail: %s\n", sig, trunc(detail, 1500))
}

func trunc(s string, n int) string {
	if len(s) > n {
		return s[:n] + "…"
	}
	return s
}

func (r *Run) Violations() int {
	r.mu.Lock()
	defer r.mu.Unlock()
	return r.violations
}

// LoadReplay decodes the "case" member of the replay file into v; ok=false when not replaying.
func (r *Run) LoadReplay(v any) bool {
	if r.Replay == "" {
		return false
	}
	b, err := os.ReadFile(r.Replay)
	if err != nil {
		panic(err)
	}
	var w struct {
		Case json.RawMessage `json:"case"`
	}
	if err := json.Unmarshal(b, &w); err != nil {
		panic(err)
	}
	if err := json.Unmarshal(w.Case, v); err != nil {
		panic(err)
	}
	return true
}

type failer interface {
	Errorf(format string, args ...any)
	Logf(format string, args ...any)
}

// Finish writes evidence/<id>.json. level is the EVIDENCE level; cov holds level-specific keys and
// overrides. Generic keys are filled from counters: evaluations <- counter "evaluations",
// distinct_nontrivial <- distinct set "nontrivial".
func (r *Run) Finish(t failer, level string, rule string, cov map[string]any, assumptions []string) {
	wall := time.Since(r.start).Seconds()
	c := map[string]any{}
	c["evaluations"] = r.Get("evaluations")
	c["distinct_nontrivial"] = r.DistinctCount("nontrivial")
	c["rule"] = rule
	r.mu.Lock()
	if len(r.samples) == 0 {
		r.samples = append(r.samples, "no sample recorded")
	}
	c["samples"] = r.samples
	c["exhaustive"] = r.Exhaustive
	if r.capNote != "" {
		c["cap"] = r.capNote
	}
	if len(r.notes) > 0 {
		c["notes"] = r.notes
	}
	counters := map[string]int64{}
	for k, v := range r.counters {
		counters[k] = atomic.LoadInt64(v)
	}
	dist := map[string]int{}
	for k, v := range r.distinct {
		dist[k] = len(v)
	}
	var known []string
	for k := range r.knownSeen {
		known = append(known, k)
	}
	sort.Strings(known)
	viol := r.violations
	r.mu.Unlock()
	c["counters"] = counters
	c["distinct_sets"] = dist
	if len(known) > 0 {
		c["known_findings_seen"] = known
	}
	for k, v := range cov {
		c[k] = v
	}
	ev := map[string]any{
		"property_id": r.ID, "tier": r.Tier, "seed": r.Seed, "level": level,
		"coverage": c, "assumptions": assumptions, "wall_s": wall, "violations": viol,
	}
	if r.Replay == "" {
		b, _ := json.MarshalIndent(ev, "", " ")
		os.MkdirAll(filepath.Join(r.Dir, "evidence"), 0o755)
		// VERIF_EVIDENCE_SUFFIX: an add-on run of the same property writes next to the main evidence file (merged by ./check)
		if err := os.WriteFile(filepath.Join(r.Dir, "evidence", r.ID+os.Getenv("VERIF_EVIDENCE_SUFFIX")+".json"), b, 0o644); err != nil {
			t.Errorf("writing evidence: %v", err)
		}
	}
	t.Logf("%s tier=%s evaluations=%v distinct=%v exhaustive=%v violations=%d wall=%.1fs counters=%v sets=%v",
		r.ID, r.Tier, c["evaluations"], c["distinct_nontrivial"], r.Exhaustive, viol, wall, counters, dist)
	if viol > 0 {
		t.Errorf("%d violation(s) of %s", viol, r.ID)
	}
}

// Parallel runs fn(i) for i in [0,n) on `workers` goroutines (0 = NumCPU).
func Parallel(n, workers int, fn func(i int)) {
	if workers <= 0 {
		workers = Workers()
	}
	if workers > n {
		workers = n
	}
	if workers <= 1 {
		for i := 0; i < n; i++ {
			fn(i)
		}
		return
	}
	var next int64 = -1
	var wg sync.WaitGroup
	for w := 0; w < workers; w++ {
		wg.Add(1)
		go func() {
			defer wg.Done()
			for {
				i := int(atomic.AddInt64(&next, 1))
				if i >= n {
					return
				}
				fn(i)
			}
		}()
	}
	wg.Wait()
}

func Workers() int {
	if s := os.Getenv("VERIF_WORKERS"); s != "" {
		if n, err := strconv.Atoi(s); err == nil && n > 0 {
			return n
		}
	}
	return 16
}

// Catch runs fn and returns the recovered panic value (nil if none).
func Catch(fn func()) (p any) {
	defer func() {
		if r := recover(); r != nil {
			p = r
		}
	}()
	fn()
	return nil
}

func JSON(v any) string {
	b, _ := json.Marshal(v)
	return string(b)
}
