package vlib

import (
	"bufio"
	"bytes"
	"encoding/json"
	"fmt"
	"io"
	"os"
	"os/exec"
	"strings"
	"sync"
	"time"
)

// Worker subprocess protocol: the test binary is re-executed with -test.run ^TestVerifWorker$ and
// VERIF_WORKER=<handler>; it reads one JSON job per line on stdin and answers one line
// "@@VERIF@@ <json>" on stdout. A worker that dies (panic in a goroutine the harness does not own,
// logger.Fatal -> os.Exit) is itself an observation attributed to the job it was running.

const workerMarker = "@@VERIF@@ "

type Handler func(job json.RawMessage) any

// ServeWorker is called from TestVerifWorker in harness packages; it never returns when the process
// is a worker.
func ServeWorker(handlers map[string]Handler) {
	name := os.Getenv("VERIF_WORKER")
	if name == "" {
		return
	}
	h, ok := handlers[name]
	if !ok {
		fmt.Fprintf(os.Stderr, "unknown worker handler %q\n", name)
		os.Exit(3)
	}
	in := bufio.NewReaderSize(os.Stdin, 1<<20)
	out := bufio.NewWriter(os.Stdout)
	for {
		line, err := in.ReadBytes('\n')
		if len(line) > 0 {
			res := h(json.RawMessage(bytes.TrimSpace(line)))
			b, _ := json.Marshal(res)
			out.WriteString(workerMarker)
			out.Write(b)
			out.WriteByte('\n')
			out.Flush()
		}
		if err != nil {
			os.Exit(0)
		}
	}
}

type Worker struct {
	// Recycle > 0 restarts the worker process after that many jobs (bounds leaked goroutines / memory).
	Recycle int
	jobs    int
	name   string
	env    []string
	cmd    *exec.Cmd
	stdin  io.WriteCloser
	stdout *bufio.Reader
	stderr *tailBuffer
	mu     sync.Mutex
}

type tailBuffer struct {
	mu    sync.Mutex
	buf   []byte
	cause string // first "fatal error:" / "panic:" line seen (a goroutine dump pushes it out of the tail)
}

func (t *tailBuffer) Write(p []byte) (int, error) {
	t.mu.Lock()
	if t.cause == "" {
		for _, key := range []string{"fatal error:", "panic:"} {
			if i := bytes.Index(p, []byte(key)); i >= 0 && (i == 0 || p[i-1] == '\n') {
				line := p[i:]
				if j := bytes.IndexByte(line, '\n'); j >= 0 {
					line = line[:j]
				}
				if len(line) > 300 {
					line = line[:300]
				}
				t.cause = string(line)
				break
			}
		}
	}
	t.buf = append(t.buf, p...)
	if len(t.buf) > 16384 {
		t.buf = t.buf[len(t.buf)-16384:]
	}
	t.mu.Unlock()
	return len(p), nil
}

func (t *tailBuffer) String() string {
	t.mu.Lock()
	defer t.mu.Unlock()
	if t.cause != "" && !bytes.Contains(t.buf, []byte(t.cause)) {
		return t.cause + "\n[...]\n" + string(t.buf)
	}
	return string(t.buf)
}

func NewWorker(name string, env ...string) *Worker {
	return &Worker{name: name, env: env}
}

func (w *Worker) start() error {
	bin := os.Getenv("VERIF_TESTBIN")
	if bin == "" {
		bin = os.Args[0]
	}
	cmd := exec.Command(bin, "-test.run", "^TestVerifWorker$", "-test.timeout", "0")
	cmd.Env = append(os.Environ(), "VERIF_WORKER="+w.name, "LOG_LEVEL=fatal")
	cmd.Env = append(cmd.Env, w.env...)
	stdin, err := cmd.StdinPipe()
	if err != nil {
		return err
	}
	stdout, err := cmd.StdoutPipe()
	if err != nil {
		return err
	}
	w.stderr = &tailBuffer{}
	cmd.Stderr = w.stderr
	if err := cmd.Start(); err != nil {
		return err
	}
	w.cmd, w.stdin, w.stdout = cmd, stdin, bufio.NewReaderSize(stdout, 1<<20)
	return nil
}

// Result of one job.
type JobResult struct {
	Died    bool   // worker process ended while running the job
	Hung    bool   // no answer within the horizon (process killed)
	Exit    string // exit status text when Died
	Stderr  string // tail of stderr when Died/Hung
	Elapsed time.Duration
}

// Do sends one job and decodes the answer into out. horizon is a generous per-job limit used only to
// detect hangs (never as a performance oracle).
func (w *Worker) Do(job any, out any, horizon time.Duration) (JobResult, error) {
	w.mu.Lock()
	defer w.mu.Unlock()
	if w.cmd != nil && w.Recycle > 0 && w.jobs >= w.Recycle {
		w.closeLocked()
	}
	if w.cmd == nil {
		if err := w.start(); err != nil {
			return JobResult{}, err
		}
		w.jobs = 0
	}
	w.jobs++
	b, err := json.Marshal(job)
	if err != nil {
		return JobResult{}, err
	}
	start := time.Now()
	if _, err := w.stdin.Write(append(b, '\n')); err != nil {
		return w.dead(start), nil
	}
	type rd struct {
		line string
		err  error
	}
	ch := make(chan rd, 1)
	go func() {
		for {
			line, err := w.stdout.ReadString('\n')
			if strings.HasPrefix(line, workerMarker) {
				ch <- rd{line[len(workerMarker):], nil}
				return
			}
			if err != nil {
				ch <- rd{"", err}
				return
			}
		}
	}()
	select {
	case r := <-ch:
		if r.err != nil {
			return w.dead(start), nil
		}
		if err := json.Unmarshal([]byte(r.line), out); err != nil {
			return JobResult{}, fmt.Errorf("bad worker answer %q: %v", trunc(r.line, 200), err)
		}
		return JobResult{Elapsed: time.Since(start)}, nil
	case <-time.After(horizon):
		w.cmd.Process.Kill()
		w.cmd.Wait()
		res := JobResult{Hung: true, Stderr: w.stderr.String(), Elapsed: time.Since(start)}
		w.cmd = nil
		return res, nil
	}
}

func (w *Worker) dead(start time.Time) JobResult {
	err := w.cmd.Wait()
	res := JobResult{Died: true, Stderr: w.stderr.String(), Elapsed: time.Since(start)}
	if err != nil {
		res.Exit = err.Error()
	} else {
		res.Exit = "exit status 0"
	}
	w.cmd = nil
	return res
}

func (w *Worker) Close() {
	w.mu.Lock()
	defer w.mu.Unlock()
	w.closeLocked()
}

func (w *Worker) closeLocked() {
	if w.cmd != nil {
		w.stdin.Close()
		done := make(chan struct{})
		go func() { w.cmd.Wait(); close(done) }()
		select {
		case <-done:
		case <-time.After(5 * time.Second):
			w.cmd.Process.Kill()
			<-done
		}
		w.cmd = nil
	}
}

// Pool of identical workers.
type Pool struct {
	ch chan *Worker
	n  int
}

func NewPool(name string, n int, env ...string) *Pool {
	p := &Pool{ch: make(chan *Worker, n), n: n}
	for i := 0; i < n; i++ {
		w := NewWorker(name, env...)
		w.Recycle = 400
		p.ch <- w
	}
	return p
}

func (p *Pool) Do(job any, out any, horizon time.Duration) (JobResult, error) {
	w := <-p.ch
	defer func() { p.ch <- w }()
	return w.Do(job, out, horizon)
}

func (p *Pool) Close() {
	for i := 0; i < p.n; i++ {
		w := <-p.ch
		w.Close()
	}
}
