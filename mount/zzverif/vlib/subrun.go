package vlib

import "sync/atomic"

// Sub-runs: a check whose engine keeps process-global state (vdec) shards its plans over worker
// subprocesses. The worker judges executions against a collecting Run (NewSubRun: nothing is printed or
// written) and returns its Export; the parent Merges it: violations are re-issued through the parent's
// Violation (de-duplication, known findings, artefacts), counters are added, distinct sets are merged by
// key hash, caps and notes are carried over.

type SubViolation struct {
	Sig    string `json:"sig"`
	Case   any    `json:"case"`
	Detail string `json:"detail"`
}

type Export struct {
	Violations []SubViolation      `json:"violations"`
	Counters   map[string]int64    `json:"counters"`
	Distinct   map[string][]string `json:"distinct"` // set -> hex of 16-byte key hashes
	Notes      []string            `json:"notes"`
	Cap        string              `json:"cap"`
}

// NewSubRun returns a Run that only collects (for use inside a worker subprocess).
func NewSubRun(id string) *Run {
	r := NewRun(id)
	r.collect = true
	return r
}

func (r *Run) Export() Export {
	r.mu.Lock()
	defer r.mu.Unlock()
	e := Export{Violations: r.collected, Counters: map[string]int64{}, Distinct: map[string][]string{}, Notes: r.notes, Cap: r.capNote}
	for k, v := range r.counters {
		e.Counters[k] = atomic.LoadInt64(v)
	}
	const hexd = "0123456789abcdef"
	for set, m := range r.distinct {
		keys := make([]string, 0, len(m))
		for k := range m {
			b := make([]byte, 32)
			for i, c := range k {
				b[2*i], b[2*i+1] = hexd[c>>4], hexd[c&15]
			}
			keys = append(keys, string(b))
		}
		e.Distinct[set] = keys
	}
	return e
}

func unhex(c byte) byte {
	if c >= 'a' {
		return c - 'a' + 10
	}
	return c - '0'
}

func (r *Run) Merge(e Export) {
	for _, v := range e.Violations {
		r.Violation(v.Sig, v.Case, v.Detail)
	}
	for k, n := range e.Counters {
		r.Add(k, n)
	}
	r.mu.Lock()
	for set, keys := range e.Distinct {
		m := r.distinct[set]
		if m == nil {
			m = map[[16]byte]struct{}{}
			r.distinct[set] = m
		}
		for _, s := range keys {
			if len(s) != 32 {
				continue
			}
			var k [16]byte
			for i := range k {
				k[i] = unhex(s[2*i])<<4 | unhex(s[2*i+1])
			}
			m[k] = struct{}{}
		}
	}
	r.notes = append(r.notes, e.Notes...)
	r.mu.Unlock()
	if e.Cap != "" {
		r.Cap(e.Cap)
	}
}
