// Package vos is a drop-in for the subset of package os used by seq-db's storage packages
// (mounted by the `fs` overlay: import os "…/zzverif/vos"). It works on the real file system but
//   - appends every mutating operation under the journal root to an in-memory journal,
//   - elides real fsync (durability is modelled from the journal, not trusted),
//   - can fail the k-th operation of a kind once (VOS_FAIL=kind:k),
//   - can kill the process at journal position k after t bytes of a write (VOS_KILL_AT=k:t).
package vos

import (
	"errors"
	"fmt"
	"io/fs"
	realos "os"
	"path/filepath"
	"strconv"
	"strings"
	"sync"
	"syscall"
)

type (
	FileInfo = realos.FileInfo
	FileMode = realos.FileMode
	DirEntry = realos.DirEntry
)

var (
	ErrNotExist = realos.ErrNotExist
	ErrExist    = realos.ErrExist
	Stderr      = realos.Stderr
	Stdout      = realos.Stdout
	Args        = realos.Args
)

const (
	O_RDONLY = realos.O_RDONLY
	O_WRONLY = realos.O_WRONLY
	O_RDWR   = realos.O_RDWR
	O_CREATE = realos.O_CREATE
	O_TRUNC  = realos.O_TRUNC
	O_APPEND = realos.O_APPEND
	O_EXCL   = realos.O_EXCL
)

// Op is one journaled operation. Kinds: create, write, sync, syncdir, rename, remove, mkdir, mark.
type Op struct {
	Kind string `json:"k"`
	Path string `json:"p,omitempty"`
	To   string `json:"to,omitempty"`
	Off  int64  `json:"off,omitempty"`
	Data []byte `json:"d,omitempty"`
	Note string `json:"n,omitempty"`
}

var ErrInjected = errors.New("vos: injected I/O error")

var (
	mu       sync.Mutex
	root     string
	journal  []Op
	open     = map[*File]struct{}{}
	failKind string
	failAt   int
	failMode string // "": ErrInjected; "enospc": the error is ENOSPC (nothing written); "enospc-torn": half of a write is applied first
	failCnt  = map[string]int{}
	opCnt    = map[string]int{}
	killAt   = -1
	killT    = -1
	Failed   bool // set when the injected fault fired
)

func init() {
	if r := realos.Getenv("VOS_ROOT"); r != "" {
		root = r
	}
	if f := realos.Getenv("VOS_FAIL"); f != "" {
		SetFail(f)
	}
	if k := realos.Getenv("VOS_KILL_AT"); k != "" {
		parts := strings.SplitN(k, ":", 2)
		killAt, _ = strconv.Atoi(parts[0])
		if len(parts) == 2 {
			killT, _ = strconv.Atoi(parts[1])
		}
	}
}

// SetRoot starts journaling for paths under dir (and resets the journal).
func SetRoot(dir string) {
	mu.Lock()
	root = dir
	journal = nil
	failCnt = map[string]int{}
	Failed = false
	mu.Unlock()
}

// SetFail arms a single fault: "kind:k" fails the k-th (1-based) op of that kind. "" disarms.
// "kind:k:enospc" makes the error a wrapped syscall.ENOSPC (what a full volume answers; the next attempt succeeds),
// "write:k:enospc-torn" additionally applies the first half of the write before failing,
// "write:k:enospc-sticky" fails the k-th and EVERY later write with ENOSPC (the volume stays full: retries fail too).
func SetFail(spec string) {
	mu.Lock()
	defer mu.Unlock()
	failKind, failAt, failMode = "", 0, ""
	failCnt = map[string]int{}
	Failed = false
	if spec == "" {
		return
	}
	parts := strings.SplitN(spec, ":", 3)
	failKind = parts[0]
	failAt, _ = strconv.Atoi(parts[1])
	if len(parts) == 3 {
		failMode = parts[2]
	}
}

// OpCounts returns how many tracked operations of every kind were attempted since ResetCounts.
func OpCounts() map[string]int {
	mu.Lock()
	defer mu.Unlock()
	c := map[string]int{}
	for k, v := range opCnt {
		c[k] = v
	}
	return c
}

func ResetCounts() {
	mu.Lock()
	opCnt = map[string]int{}
	mu.Unlock()
}

// SetKillAt arms a process kill at journal position k (t bytes of a write applied first; t<0: none).
func SetKillAt(k, t int) {
	mu.Lock()
	killAt, killT = k, t
	mu.Unlock()
}

func Journal() []Op {
	mu.Lock()
	defer mu.Unlock()
	return append([]Op{}, journal...)
}

func JournalLen() int {
	mu.Lock()
	defer mu.Unlock()
	return len(journal)
}

// Mark appends a harness marker (e.g. "ack:2") to the journal.
func Mark(note string) {
	mu.Lock()
	if killAt >= 0 && len(journal) == killAt && root != "" {
		realos.Exit(137)
	}
	journal = append(journal, Op{Kind: "mark", Note: note})
	mu.Unlock()
}

func tracked(path string) bool {
	return root != "" && (path == root || strings.HasPrefix(path, root+string(filepath.Separator)))
}

// before is called with mu held before performing a tracked mutating op; it decides on fault
// injection and on the kill point. Returns an error to inject, or nil.
func before(kind string, path string) error {
	if !tracked(path) {
		return nil
	}
	if killAt >= 0 && len(journal) == killAt && kind != "write" {
		realos.Exit(137)
	}
	opCnt[kind]++
	if failKind == kind {
		failCnt[kind]++
		if failCnt[kind] == failAt || (failMode == "enospc-sticky" && failCnt[kind] > failAt) {
			Failed = true
			if failMode != "" {
				return &realos.PathError{Op: kind, Path: path, Err: syscall.ENOSPC}
			}
			return fmt.Errorf("%w (%s #%d on %s)", ErrInjected, kind, failAt, filepath.Base(path))
		}
	}
	return nil
}

func logOp(o Op) {
	if tracked(o.Path) {
		journal = append(journal, o)
	}
}

type File struct {
	f     *realos.File
	name  string
	isDir bool
	pos   int64
}

func register(f *realos.File, name string) *File {
	vf := &File{f: f, name: name}
	if st, err := f.Stat(); err == nil && st.IsDir() {
		vf.isDir = true
	}
	open[vf] = struct{}{}
	return vf
}

func abs(name string) string {
	if filepath.IsAbs(name) {
		return filepath.Clean(name)
	}
	a, err := filepath.Abs(name)
	if err != nil {
		return name
	}
	return a
}

func OpenFile(name string, flag int, perm FileMode) (*File, error) {
	name = abs(name)
	mu.Lock()
	defer mu.Unlock()
	creating := false
	if flag&O_CREATE != 0 {
		if _, err := realos.Lstat(name); err != nil {
			creating = true
		}
	}
	if creating || flag&O_TRUNC != 0 {
		if err := before("create", name); err != nil {
			return nil, err
		}
	}
	f, err := realos.OpenFile(name, flag, perm)
	if err != nil {
		return nil, err
	}
	if creating {
		logOp(Op{Kind: "create", Path: name})
	} else if flag&O_TRUNC != 0 {
		logOp(Op{Kind: "create", Path: name, Note: "trunc"})
	}
	vf := register(f, name)
	if flag&O_APPEND != 0 {
		if st, err := f.Stat(); err == nil {
			vf.pos = st.Size()
		}
	}
	return vf, nil
}

func Create(name string) (*File, error) {
	return OpenFile(name, O_RDWR|O_CREATE|O_TRUNC, 0o666)
}

func Open(name string) (*File, error) { return OpenFile(name, O_RDONLY, 0) }

func CreateTemp(dir, pattern string) (*File, error) {
	dir = abs(dir)
	mu.Lock()
	defer mu.Unlock()
	if err := before("create", filepath.Join(dir, pattern)); err != nil {
		return nil, err
	}
	f, err := realos.CreateTemp(dir, pattern)
	if err != nil {
		return nil, err
	}
	logOp(Op{Kind: "create", Path: f.Name()})
	return register(f, f.Name()), nil
}

func Rename(a, b string) error {
	a, b = abs(a), abs(b)
	mu.Lock()
	defer mu.Unlock()
	if _, err := realos.Lstat(a); err != nil {
		return realos.Rename(a, b) // let the real error through without counting it as an op
	}
	if err := before("rename", a); err != nil {
		return err
	}
	if err := realos.Rename(a, b); err != nil {
		return err
	}
	logOp(Op{Kind: "rename", Path: a, To: b})
	for f := range open {
		if f.name == a {
			f.name = b
		}
	}
	return nil
}

func Remove(name string) error {
	name = abs(name)
	mu.Lock()
	defer mu.Unlock()
	if _, err := realos.Lstat(name); err != nil {
		return realos.Remove(name)
	}
	if err := before("remove", name); err != nil {
		return err
	}
	if err := realos.Remove(name); err != nil {
		return err
	}
	logOp(Op{Kind: "remove", Path: name})
	return nil
}

func RemoveAll(name string) error {
	name = abs(name)
	mu.Lock()
	defer mu.Unlock()
	err := realos.RemoveAll(name)
	if err == nil {
		logOp(Op{Kind: "remove", Path: name, Note: "all"})
	}
	return err
}

func MkdirAll(name string, perm FileMode) error {
	name = abs(name)
	mu.Lock()
	defer mu.Unlock()
	_, statErr := realos.Stat(name)
	err := realos.MkdirAll(name, perm)
	if err == nil && statErr != nil {
		logOp(Op{Kind: "mkdir", Path: name})
	}
	return err
}

func Mkdir(name string, perm FileMode) error       { return MkdirAll(name, perm) }
func ReadFile(name string) ([]byte, error)         { return realos.ReadFile(name) }
func ReadDir(name string) ([]DirEntry, error)      { return realos.ReadDir(name) }
func Stat(name string) (FileInfo, error)           { return realos.Stat(name) }
func Lstat(name string) (FileInfo, error)          { return realos.Lstat(name) }
func IsNotExist(err error) bool                    { return realos.IsNotExist(err) }
func IsExist(err error) bool                       { return realos.IsExist(err) }
func Getenv(k string) string                       { return realos.Getenv(k) }
func Exit(code int)                                { realos.Exit(code) }
func MkdirTemp(dir, pattern string) (string, error) { return realos.MkdirTemp(dir, pattern) }
func TempDir() string                              { return realos.TempDir() }
func Getpid() int                                  { return realos.Getpid() }

func WriteFile(name string, data []byte, perm FileMode) error {
	f, err := OpenFile(name, O_WRONLY|O_CREATE|O_TRUNC, perm)
	if err != nil {
		return err
	}
	_, err = f.Write(data)
	if cerr := f.Close(); err == nil {
		err = cerr
	}
	return err
}

func (f *File) Name() string               { return f.name }
func (f *File) Stat() (fs.FileInfo, error) { return f.f.Stat() }
func (f *File) Fd() uintptr                { return f.f.Fd() }
func (f *File) Chmod(m FileMode) error     { return f.f.Chmod(m) }
func (f *File) Close() error {
	mu.Lock()
	delete(open, f)
	mu.Unlock()
	return f.f.Close()
}
// readFault counts a read of a tracked file and injects the armed "read:k" fault (reads are not journaled and
// are no kill points: they change nothing on disk).
func readFault(name string) error {
	mu.Lock()
	defer mu.Unlock()
	if !tracked(name) {
		return nil
	}
	opCnt["read"]++
	if failKind == "read" {
		failCnt["read"]++
		if failCnt["read"] == failAt {
			Failed = true
			return fmt.Errorf("%w (read #%d on %s)", ErrInjected, failAt, filepath.Base(name))
		}
	}
	return nil
}

func (f *File) ReadAt(b []byte, off int64) (int, error) {
	if err := readFault(f.name); err != nil {
		return 0, err
	}
	return f.f.ReadAt(b, off)
}
func (f *File) Read(b []byte) (int, error) {
	if err := readFault(f.name); err != nil {
		return 0, err
	}
	n, err := f.f.Read(b)
	mu.Lock()
	f.pos += int64(n)
	mu.Unlock()
	return n, err
}
func (f *File) ReadDir(n int) ([]DirEntry, error) { return f.f.ReadDir(n) }

func (f *File) Seek(off int64, whence int) (int64, error) {
	mu.Lock()
	defer mu.Unlock()
	if tracked(f.name) {
		if err := before("seek", f.name); err != nil {
			return 0, err
		}
	}
	p, err := f.f.Seek(off, whence)
	if err == nil {
		f.pos = p
	}
	return p, err
}

// write performs a (possibly killed / failed) write at off.
func (f *File) write(b []byte, off int64, at bool) (int, error) {
	mu.Lock()
	defer mu.Unlock()
	if !tracked(f.name) {
		if at {
			return f.f.WriteAt(b, off)
		}
		n, err := f.f.Write(b)
		f.pos += int64(n)
		return n, err
	}
	if killAt >= 0 && len(journal) == killAt {
		t := killT
		if t > len(b) {
			t = len(b)
		}
		if t > 0 {
			f.f.WriteAt(b[:t], off)
		}
		realos.Exit(137)
	}
	if err := before("write", f.name); err != nil {
		if failMode == "enospc-torn" && len(b) > 1 {
			// a full volume takes what still fits: the first half lands in the file, the position moves with it
			n, _ := f.f.WriteAt(b[:len(b)/2], off)
			if n > 0 {
				journal = append(journal, Op{Kind: "write", Path: f.name, Off: off, Data: append([]byte{}, b[:n]...)})
			}
			if !at {
				f.pos = off + int64(n)
				f.f.Seek(f.pos, 0)
			}
			return n, err
		}
		return 0, err
	}
	n, err := f.f.WriteAt(b, off)
	if n > 0 {
		journal = append(journal, Op{Kind: "write", Path: f.name, Off: off, Data: append([]byte{}, b[:n]...)})
	}
	if !at {
		f.pos = off + int64(n)
		f.f.Seek(f.pos, 0)
	}
	return n, err
}

func (f *File) Write(b []byte) (int, error) {
	mu.Lock()
	off := f.pos
	mu.Unlock()
	return f.write(b, off, false)
}

func (f *File) WriteString(s string) (int, error) { return f.Write([]byte(s)) }

func (f *File) WriteAt(b []byte, off int64) (int, error) { return f.write(b, off, true) }

func (f *File) Truncate(size int64) error {
	mu.Lock()
	defer mu.Unlock()
	if err := before("truncate", f.name); err != nil {
		return err
	}
	err := f.f.Truncate(size)
	if err == nil {
		logOp(Op{Kind: "truncate", Path: f.name, Off: size})
	}
	return err
}

// Sync records a sync of the file (or directory); the real fsync is elided.
func (f *File) Sync() error {
	mu.Lock()
	defer mu.Unlock()
	kind := "sync"
	if f.isDir {
		kind = "syncdir"
	}
	if err := before("sync", f.name); err != nil {
		return err
	}
	logOp(Op{Kind: kind, Path: f.name})
	return nil
}
