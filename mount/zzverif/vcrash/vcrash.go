// Package vcrash is the persistence model of the E2 engine: an in-memory image of a data directory,
// journal replay, crash-state enumeration (Model A: prefix + torn in-flight write; Model B: A + loss
// of unsynced data per file), canonical hashing and materialisation into a real directory.
package vcrash

import (
	"crypto/sha256"
	"encoding/hex"
	"fmt"
	"os"
	"path/filepath"
	"regexp"
	"sort"
	"strings"

	"github.com/ozontech/seq-db/zzverif/vos"
)

// FS maps a path relative to the data directory to the file content. Directories are implicit
// (created on materialisation); "dir/" entries mark explicitly created directories.
type FS map[string][]byte

func (f FS) Clone() FS {
	c := make(FS, len(f))
	for k, v := range f {
		c[k] = append([]byte{}, v...)
	}
	return c
}

// Image tracks, besides the content, how much of every file is known durable.
type Image struct {
	Files FS
	// Synced[path] = length of the prefix that is durable (covered by a sync after it was written);
	// in-place overwrites below that length that were not synced are remembered in Dirty.
	Synced map[string]int
	Dirty  map[string][]vos.Op // unsynced overwrites below the synced length
}

func NewImage(fs FS) *Image {
	im := &Image{Files: fs.Clone(), Synced: map[string]int{}, Dirty: map[string][]vos.Op{}}
	for p, c := range fs {
		im.Synced[p] = len(c) // the starting image is durable
	}
	return im
}

func (im *Image) Clone() *Image {
	c := &Image{Files: im.Files.Clone(), Synced: map[string]int{}, Dirty: map[string][]vos.Op{}}
	for k, v := range im.Synced {
		c.Synced[k] = v
	}
	for k, v := range im.Dirty {
		c.Dirty[k] = append([]vos.Op{}, v...)
	}
	return c
}

func rel(root, p string) string {
	r, err := filepath.Rel(root, p)
	if err != nil {
		return p
	}
	return r
}

// Apply replays one journal op (paths are absolute under root). torn >= 0 applies only the first
// `torn` bytes of a write.
func (im *Image) Apply(root string, o vos.Op, torn int) {
	p := rel(root, o.Path)
	switch o.Kind {
	case "create":
		im.Files[p] = []byte{}
		im.Synced[p] = 0
		delete(im.Dirty, p)
	case "mkdir":
		im.Files[p+"/"] = nil
	case "write":
		data := o.Data
		if torn >= 0 && torn < len(data) {
			data = data[:torn]
		}
		cur := im.Files[p]
		end := int(o.Off) + len(data)
		if end > len(cur) {
			cur = append(cur, make([]byte, end-len(cur))...)
		}
		copy(cur[o.Off:], data)
		im.Files[p] = cur
		if int(o.Off) < im.Synced[p] && len(data) > 0 {
			im.Dirty[p] = append(im.Dirty[p], vos.Op{Kind: "write", Off: o.Off, Data: append([]byte{}, data...)})
		}
	case "truncate":
		cur := im.Files[p]
		if int(o.Off) < len(cur) {
			im.Files[p] = cur[:o.Off]
		}
		if im.Synced[p] > int(o.Off) {
			im.Synced[p] = int(o.Off)
		}
	case "sync":
		im.Synced[p] = len(im.Files[p])
		delete(im.Dirty, p)
	case "syncdir", "mark":
	case "rename":
		to := rel(root, o.To)
		im.Files[to] = im.Files[p]
		im.Synced[to] = im.Synced[p]
		if d, ok := im.Dirty[p]; ok {
			im.Dirty[to] = d
		}
		delete(im.Files, p)
		delete(im.Synced, p)
		delete(im.Dirty, p)
	case "remove":
		if o.Note == "all" {
			for k := range im.Files {
				if k == p || strings.HasPrefix(k, p+"/") {
					delete(im.Files, k)
					delete(im.Synced, k)
					delete(im.Dirty, k)
				}
			}
			return
		}
		delete(im.Files, p)
		delete(im.Synced, p)
		delete(im.Dirty, p)
	}
}

var reULID = regexp.MustCompile(`seq-db-[0-9A-HJKMNP-TV-Z]{26}`)

// Canon returns a hash of the file system that is stable across runs: fraction ULIDs are renamed in
// lexicographic (= creation) order, temp-file random suffixes are dropped.
func (f FS) Canon() string {
	names := map[string]bool{}
	for p := range f {
		for _, m := range reULID.FindAllString(p, -1) {
			names[m] = true
		}
	}
	var sorted []string
	for n := range names {
		sorted = append(sorted, n)
	}
	sort.Strings(sorted)
	ren := map[string]string{}
	for i, n := range sorted {
		ren[n] = fmt.Sprintf("F%d", i)
	}
	var keys []string
	m := map[string][]byte{}
	for p, c := range f {
		q := reULID.ReplaceAllStringFunc(p, func(s string) string { return ren[s] })
		keys = append(keys, q)
		m[q] = c
	}
	sort.Strings(keys)
	h := sha256.New()
	for _, k := range keys {
		c := m[k]
		// ULIDs also occur inside file contents (info blocks, frac-cache): canonicalise them too
		cs := reULID.ReplaceAllFunc(c, func(s []byte) []byte { return []byte(ren[string(s)]) })
		fmt.Fprintf(h, "%s\x00%d\x00", k, len(cs))
		h.Write(cs)
	}
	return hex.EncodeToString(h.Sum(nil)[:12])
}

// Listing renders names and sizes (for replay artefacts and samples).
func (f FS) Listing() []string {
	var res []string
	for p, c := range f {
		res = append(res, fmt.Sprintf("%s:%d", p, len(c)))
	}
	sort.Strings(res)
	return res
}

// Materialize writes the image into dir (which must exist and be empty).
func (f FS) Materialize(dir string) error {
	for p, c := range f {
		full := filepath.Join(dir, p)
		if strings.HasSuffix(p, "/") {
			if err := os.MkdirAll(full, 0o777); err != nil {
				return err
			}
			continue
		}
		if err := os.MkdirAll(filepath.Dir(full), 0o777); err != nil {
			return err
		}
		if err := os.WriteFile(full, c, 0o666); err != nil {
			return err
		}
	}
	return nil
}

// ReadDir loads a directory tree into an FS.
func ReadDir(dir string) (FS, error) {
	fs := FS{}
	err := filepath.Walk(dir, func(p string, info os.FileInfo, err error) error {
		if err != nil {
			return err
		}
		if p == dir {
			return nil
		}
		r := rel(dir, p)
		if info.IsDir() {
			fs[r+"/"] = nil
			return nil
		}
		b, err := os.ReadFile(p)
		if err != nil {
			return err
		}
		fs[r] = b
		return nil
	})
	return fs, err
}

// CrashState is one state a crash can leave behind.
type CrashState struct {
	K     int    // number of journal ops fully applied
	Torn  int    // bytes of op K applied (-1: none / not a write)
	Lost  string // Model B description of lost unsynced data ("" = none)
	FS    FS
	Marks []string // harness marks inside the applied prefix
}

// TornLengths returns the torn lengths explored for a write of n bytes: all when n <= full,
// otherwise a boundary-directed subset (header borders, block ends +-1, every stride-th byte).
func TornLengths(n, full, stride int, borders []int) []int {
	set := map[int]bool{}
	if n <= full {
		for t := 0; t < n; t++ {
			set[t] = true
		}
	} else {
		for t := 0; t < n; t += stride {
			set[t] = true
		}
		for _, b := range append(borders, 0, 1, n-1, n/2) {
			for _, t := range []int{b - 1, b, b + 1} {
				if t >= 0 && t < n {
					set[t] = true
				}
			}
		}
	}
	var res []int
	for t := range set {
		res = append(res, t)
	}
	sort.Ints(res)
	return res
}

// Options of the enumeration.
type Options struct {
	ModelB     bool
	FullTorn   int   // writes up to this length get every torn length
	Stride     int   // stride for longer writes
	Borders    []int // extra torn borders (e.g. 33-byte block header)
	TailFull   int   // Model B: unsynced tails up to this length get every cut
	OnlyPrefix bool  // no torn writes (prefixes only)
}

// Enumerate yields every crash state of journal j applied to base (Model A, and B when enabled),
// de-duplicated by canonical hash. fn returning false stops the enumeration.
func Enumerate(base FS, root string, j []vos.Op, opt Options, fn func(CrashState) bool) (states int) {
	seen := map[string]bool{}
	emit := func(cs CrashState) bool {
		h := cs.FS.Canon() + "|" + strings.Join(cs.Marks, ",")
		if seen[h] {
			return true
		}
		seen[h] = true
		states++
		return fn(cs)
	}
	im := NewImage(base)
	var marks []string
	for k := 0; k <= len(j); k++ {
		// state after k ops
		if !emit(CrashState{K: k, Torn: -1, FS: im.Files.Clone(), Marks: append([]string{}, marks...)}) {
			return
		}
		if opt.ModelB {
			for _, v := range lostVariants(im, opt) {
				if !emit(CrashState{K: k, Torn: -1, Lost: v.desc, FS: v.fs, Marks: append([]string{}, marks...)}) {
					return
				}
			}
		}
		if k == len(j) {
			break
		}
		o := j[k]
		if o.Kind == "write" && !opt.OnlyPrefix {
			for _, t := range TornLengths(len(o.Data), opt.FullTorn, opt.Stride, opt.Borders) {
				if t == 0 {
					continue // equals the state before the op
				}
				c := im.Clone()
				c.Apply(root, o, t)
				if !emit(CrashState{K: k, Torn: t, FS: c.Files, Marks: append([]string{}, marks...)}) {
					return
				}
			}
		}
		if o.Kind == "mark" {
			marks = append(marks, o.Note)
		}
		im.Apply(root, o, -1)
	}
	return
}

type variant struct {
	desc string
	fs   FS
}

// lostVariants: for every file with an unsynced tail, every cut of that tail (bounded), independently
// per file for up to two files at once; unsynced in-place overwrites are dropped as a group.
func lostVariants(im *Image, opt Options) []variant {
	type cut struct {
		path string
		lens []int
	}
	var cuts []cut
	for p, c := range im.Files {
		s := im.Synced[p]
		if strings.HasSuffix(p, "/") || s >= len(c) {
			continue
		}
		tail := len(c) - s
		var lens []int
		for _, t := range TornLengths(tail, opt.TailFull, max(opt.Stride, 1), opt.Borders) {
			lens = append(lens, s+t)
		}
		cuts = append(cuts, cut{p, lens})
	}
	sort.Slice(cuts, func(i, j int) bool { return cuts[i].path < cuts[j].path })
	var res []variant
	for i, c := range cuts {
		for _, l := range c.lens {
			fs := im.Files.Clone()
			fs[c.path] = fs[c.path][:l]
			res = append(res, variant{fmt.Sprintf("%s cut to %d", c.path, l), fs})
			// second file cut to its synced length / half tail at the same time
			for _, c2 := range cuts[i+1:] {
				for _, l2 := range []int{c2.lens[0], c2.lens[len(c2.lens)/2]} {
					fs2 := fs.Clone()
					fs2[c2.path] = fs2[c2.path][:l2]
					res = append(res, variant{fmt.Sprintf("%s cut to %d, %s cut to %d", c.path, l, c2.path, l2), fs2})
				}
			}
		}
	}
	for p, ws := range im.Dirty {
		// drop unsynced in-place overwrites: restore is not possible (old bytes unknown) unless the region
		// was zero-filled by a seek gap; model the common case "header not yet rewritten" = zeros
		fs := im.Files.Clone()
		c := fs[p]
		for _, w := range ws {
			for i := range w.Data {
				if int(w.Off)+i < len(c) {
					c[int(w.Off)+i] = 0
				}
			}
		}
		res = append(res, variant{fmt.Sprintf("%s unsynced overwrite lost", p), fs})
	}
	return res
}
