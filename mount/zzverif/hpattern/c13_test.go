package hpattern

// C13 — token matching equals glob/range semantics, with or without dictionary narrowing.
// Exhaustive small-scope enumeration of patterns x tokens, ranges x tokens, and sorted
// dictionaries x every split into consecutive blocks, on the real pattern.Search /
// token.Table.SelectEntries, judged by an independent 10-line glob and explicit range rules.

import (
	"context"
	"encoding/binary"
	"fmt"
	"math"
	"os"
	"sort"
	"strings"
	"testing"

	"github.com/ozontech/seq-db/cache"
	"github.com/ozontech/seq-db/conf"
	"github.com/ozontech/seq-db/disk"
	"github.com/ozontech/seq-db/frac"
	"github.com/ozontech/seq-db/frac/token"
	"github.com/ozontech/seq-db/parser"
	"github.com/ozontech/seq-db/pattern"
	"github.com/ozontech/seq-db/zzverif/refdb"
	"github.com/ozontech/seq-db/zzverif/vfrac"
	"github.com/ozontech/seq-db/zzverif/vlib"
)

// c13Pairs — part (4): on a REAL active and sealed fraction, one search that resolves two expressions on the
// same field (every ordered pair of patterns / ranges, joined by OR and by AND NOT) selects the documents
// of the union / difference of the two token sets: the resolution of one expression does not depend on
// another expression resolved in the same search (shared hints: "ab*a" / "ab*b", "*a" / "*b", two ranges).
func c13Pairs(r *vlib.Run, only *c13Case) {
	env := vfrac.NewEnv("c13")
	defer env.Close()
	toks := words("ab", 3)
	nums := []string{"1", "2", "3", "5", "7", "8", "9", "10"}
	var docs []refdb.Doc
	for i, t := range toks {
		d := refdb.Doc{ID: refdb.ID{MID: uint64(vfrac.BaseMID + i), RID: uint64(10 + i)}, Body: fmt.Sprintf(`{"i":%d}`, i),
			Toks: []refdb.Tok{{F: "k", V: t}, {F: "n", V: nums[i%len(nums)]}}}
		docs = append(docs, d)
	}
	a := env.NewActive(env.NextBase(), &frac.Config{})
	if err := env.Append(a, docs); err != nil {
		panic(err)
	}
	var leaves []refdb.Query
	for _, p := range words("ab*", 3) {
		if strings.Contains(p, "*") && !strings.Contains(p, "**") {
			leaves = append(leaves, refdb.Lit{Field: "k", Pattern: p})
		}
	}
	for _, rg := range [][2]string{{"1", "3"}, {"7", "9"}, {"2", "8"}, {"5", "5"}} {
		leaves = append(leaves, refdb.Rng{R: refdb.Range{Field: "n", From: rg[0], To: rg[1], IncFrom: true, IncTo: true}})
	}
	run := func(form string, f frac.Fraction) {
		for i, l1 := range leaves {
			for j, l2 := range leaves {
				if i == j {
					continue
				}
				for _, q := range []refdb.Query{refdb.Or{L: l1, R: l2}, refdb.And{L: l1, R: refdb.Not{X: l2}}} {
					pq, err := vfrac.Parse(q)
					if err != nil {
						panic(err)
					}
					c := c13Case{Kind: "pair", Query: pq.Text}
					if only != nil && only.Query != pq.Text {
						continue
					}
					r.Add("evaluations", 1)
					r.Add("pair_searches", 1)
					qpr, err := vfrac.Search(f, vfrac.Params(pq, 0, vfrac.MaxMID, false, 1000, true))
					if err != nil {
						r.Violation(fmt.Sprintf("pair %s form=%s error", pq.Text, form), c, err.Error())
						continue
					}
					want, _ := refdb.Search(docs, q, 0, vfrac.MaxMID, false, 1000)
					got := vfrac.RefIDs(qpr.IDs.IDs())
					if fmt.Sprint(got) != fmt.Sprint(want) && !(len(got) == 0 && len(want) == 0) {
						r.Violation(fmt.Sprintf("pair %s form=%s", pq.Text, form), c, fmt.Sprintf("got %v want %v", got, want))
					} else if len(want) > 0 && len(want) < len(docs) {
						r.Distinct("nontrivial", "pair|"+pq.Text)
					}
				}
			}
		}
	}
	run("active", a)
	s, err := env.Seal(a, frac.SealParams{IDsZstdLevel: 1, LIDsZstdLevel: 1, TokenListZstdLevel: 1, DocsPositionsZstdLevel: 1, TokenTableZstdLevel: 1, DocBlocksZstdLevel: 1}, nil)
	if err != nil {
		panic(err)
	}
	run("sealed", s)
}

// sliceProvider: tokens[i] has TID first+i.
type sliceProvider struct {
	tokens  []string
	first   uint32
	ordered bool
}

func (p *sliceProvider) GetToken(tid uint32) []byte { return []byte(p.tokens[tid-p.first]) }
func (p *sliceProvider) FirstTID() uint32           { return p.first }
func (p *sliceProvider) LastTID() uint32            { return p.first + uint32(len(p.tokens)) - 1 }
func (p *sliceProvider) Ordered() bool              { return p.ordered }

func words(alpha string, maxLen int) []string {
	res := []string{""}
	prev := []string{""}
	for l := 1; l <= maxLen; l++ {
		var cur []string
		for _, p := range prev {
			for _, c := range alpha {
				cur = append(cur, p+string(c))
			}
		}
		res = append(res, cur...)
		prev = cur
	}
	return res
}

// parse a filter through the real SeqQL parser; returns the single leaf token.
func parseLeaf(q string) (parser.Token, error) {
	ast, err := parser.ParseSeqQL(q, nil)
	if err != nil {
		return nil, err
	}
	if len(ast.Root.Children) != 0 {
		return nil, fmt.Errorf("not a leaf: %s", q)
	}
	return ast.Root.Value, nil
}

func quoteFilter(p string) string {
	if p == "" {
		return `f:""`
	}
	return `f:"` + p + `"`
}

type c13Case struct {
	Kind    string   `json:"kind"` // glob | range | layout
	Query   string   `json:"query"`
	Tokens  []string `json:"tokens"`
	Ordered bool     `json:"ordered"`
	Split   []int    `json:"split,omitempty"` // block sizes
	Layout  [][]int  `json:"layout,omitempty"` // kind disk: Layout[p][e] = tokens of the e-th table entry of the p-th physical block
}

// diskDict writes the sorted dictionary of one field into an index file the way the sealer lays it out (several
// table entries may share one physical tokens block: StartIndex counts the tokens of the block before the entry)
// and returns the REAL block loader over it plus the field's table.
func diskDict(dir string, tokens []string, layout [][]int) (*token.BlockLoader, token.Table, func(), error) {
	file, err := os.CreateTemp(dir, "dict-*.index")
	if err != nil {
		return nil, nil, nil, err
	}
	closeFn := func() { file.Close(); os.Remove(file.Name()) }
	if _, err := file.Seek(16, 0); err != nil { // room for position and length of the registry
		closeFn()
		return nil, nil, nil, err
	}
	w := disk.NewBlocksWriter(file)
	if _, err := w.WriteBlock("info", []byte("info"), false, 0, 0, 0); err != nil {
		closeFn()
		return nil, nil, nil, err
	}
	fd := &token.FieldData{MinVal: tokens[0]}
	next, tid := 0, uint32(1)
	for _, physical := range layout {
		var data []byte
		startIndex := uint32(0)
		for _, n := range physical {
			e := &token.TableEntry{StartIndex: startIndex, StartTID: tid, BlockIndex: w.GetBlockIndex(), ValCount: uint32(n), MaxVal: tokens[next+n-1]}
			if len(fd.Entries) == 0 {
				e.MinVal = tokens[0]
			}
			fd.Entries = append(fd.Entries, e)
			for _, tok := range tokens[next : next+n] {
				data = binary.LittleEndian.AppendUint32(data, uint32(len(tok)))
				data = append(data, tok...)
			}
			data = binary.LittleEndian.AppendUint32(data, math.MaxUint32)
			next += n
			tid += uint32(n)
			startIndex += uint32(n)
		}
		if _, err := w.WriteBlock("tokens", data, false, 0, 0, 0); err != nil {
			closeFn()
			return nil, nil, nil, err
		}
	}
	if next != len(tokens) {
		closeFn()
		return nil, nil, nil, fmt.Errorf("layout %v covers %d tokens of %d", layout, next, len(tokens))
	}
	w.WriteEmptyBlock()
	if err := w.WriteBlocksRegistry(); err != nil {
		closeFn()
		return nil, nil, nil, err
	}
	reader := disk.NewIndexReader(disk.NewReadLimiter(1, nil), file, cache.NewCache[[]byte](nil, nil))
	loader := token.NewBlockLoader("c13", &reader, cache.NewCache[*token.CacheEntry](nil, nil))
	return loader, token.Table{"f": fd}, closeFn, nil
}

// diskSearch: the glue of the sealed index on the real provider: SelectEntries(field, hint) -> token.NewProvider over
// the selected entries (block loader over the index file) -> pattern.Search.
func diskSearch(loader *token.BlockLoader, table token.Table, tokens []string, leaf parser.Token) ([]string, error) {
	entries := table.SelectEntries(parser.GetField(leaf), parser.GetHint(leaf))
	if len(entries) == 0 {
		return nil, nil
	}
	tids, err := pattern.Search(context.Background(), leaf, token.NewProvider(loader, entries))
	if err != nil {
		return nil, err
	}
	var got []string
	for _, tid := range tids {
		if tid < 1 || int(tid) > len(tokens) {
			return nil, fmt.Errorf("search returned TID %d outside 1..%d", tid, len(tokens))
		}
		got = append(got, tokens[tid-1])
	}
	return got, nil
}

// runCase executes one case on the real code and returns (got, want, err).
func runCase(c c13Case) (got, want []string, err error) {
	leaf, err := parseLeaf(c.Query)
	if err != nil {
		return nil, nil, err
	}
	match := func(tok string) bool {
		switch t := leaf.(type) {
		case *parser.Literal:
			// reference glob is derived from the query text, not from the parsed terms
			p := strings.TrimPrefix(c.Query, "f:")
			p = strings.Trim(p, `"`)
			return refdb.Glob(p, tok)
		case *parser.Range:
			return refdb.RangeMatchQuery(c.Query, tok)
		default:
			_ = t
			return false
		}
	}
	for _, t := range c.Tokens {
		if match(t) {
			want = append(want, t)
		}
	}
	ctx := context.Background()
	if c.Kind == "disk" {
		dir := vfrac.MkTmp("c13d")
		defer os.RemoveAll(dir)
		loader, table, closeFn, err := diskDict(dir, c.Tokens, c.Layout)
		if err != nil {
			panic(err)
		}
		defer closeFn()
		got, err = diskSearch(loader, table, c.Tokens, leaf)
		return got, want, err
	}
	if c.Kind != "layout" {
		tp := &sliceProvider{tokens: c.Tokens, first: 1, ordered: c.Ordered}
		if len(c.Tokens) == 0 {
			return nil, nil, nil
		}
		tids, err := pattern.Search(ctx, leaf, tp)
		if err != nil {
			return nil, nil, err
		}
		for _, tid := range tids {
			got = append(got, c.Tokens[tid-1])
		}
		return got, want, nil
	}
	// layout: hand-built token.Table with one entry per block, then the same glue as the sealed index:
	// SelectEntries(field, hint) -> provider over the selected entries -> pattern.Search
	fd := &token.FieldData{MinVal: c.Tokens[0]}
	tid := uint32(1)
	pos := 0
	for bi, n := range c.Split {
		e := &token.TableEntry{StartTID: tid, ValCount: uint32(n), BlockIndex: uint32(bi + 1), MaxVal: c.Tokens[pos+n-1]}
		if bi == 0 {
			e.MinVal = c.Tokens[0]
		}
		fd.Entries = append(fd.Entries, e)
		tid += uint32(n)
		pos += n
	}
	table := token.Table{"f": fd}
	entries := table.SelectEntries(parser.GetField(leaf), parser.GetHint(leaf))
	if len(entries) == 0 {
		return nil, want, nil
	}
	// entries must be a contiguous run
	first := entries[0].StartTID
	last := entries[len(entries)-1].StartTID + entries[len(entries)-1].ValCount - 1
	tp := &sliceProvider{tokens: c.Tokens[first-1 : last], first: first, ordered: true}
	tids, err := pattern.Search(ctx, leaf, tp)
	if err != nil {
		return nil, nil, err
	}
	for _, t := range tids {
		got = append(got, c.Tokens[t-1])
	}
	return got, want, nil
}

func judge(r *vlib.Run, c c13Case) {
	r.Add("evaluations", 1)
	var got, want []string
	var err error
	if p := vlib.Catch(func() { got, want, err = runCase(c) }); p != nil {
		r.Violation(fmt.Sprintf("%s query=%q panic", c.Kind, c.Query), c, fmt.Sprintf("tokens=%q split=%v layout=%v: %v", c.Tokens, c.Split, c.Layout, p))
		return
	}
	if err != nil {
		r.Violation(fmt.Sprintf("%s query=%q error", c.Kind, c.Query), c, err.Error())
		return
	}
	gs := append([]string{}, got...)
	ws := append([]string{}, want...)
	sort.Strings(gs)
	sort.Strings(ws)
	if strings.Join(gs, "\x00") != strings.Join(ws, "\x00") || len(gs) != len(ws) {
		sig := fmt.Sprintf("%s query=%q ordered=%v", c.Kind, c.Query, c.Ordered)
		if c.Kind == "layout" {
			sig += fmt.Sprintf(" tokens=%q split=%v", c.Tokens, c.Split)
		}
		if c.Kind == "disk" {
			sig += fmt.Sprintf(" tokens=%q layout=%v", c.Tokens, c.Layout)
		}
		r.Violation(sig, c,
			fmt.Sprintf("got %q want %q", got, want))
	}
	if len(want) > 0 && len(want) < len(c.Tokens) {
		r.Distinct("nontrivial", c.Kind+"|"+c.Query+"|"+strings.Join(c.Tokens, ",")+fmt.Sprint(c.Split, c.Layout, c.Ordered))
	}
	r.Distinct("outcomes", c.Kind+"|"+strings.Join(gs, ","))
}

func TestVerifC13(t *testing.T) {
	r := vlib.NewRun("C13")
	var rc c13Case
	if r.LoadReplay(&rc) {
		if rc.Kind == "pair" {
			c13Pairs(r, &rc)
			r.Finish(t, "model_checking", "replay", nil, nil)
			return
		}
		got, want, err := runCase(rc)
		t.Logf("replay: got=%q want=%q err=%v", got, want, err)
		judge(r, rc)
		r.Finish(t, "model_checking", "replay", nil, nil)
		return
	}
	patLen, tokLen, dictMax, layoutPatLen := 5, 5, 5, 4
	if r.Thorough() {
		patLen, tokLen, dictMax, layoutPatLen = 7, 7, 6, 5
	}
	// ---- (1) globs ----
	pats := words("ab*", patLen)
	toks := words("ab", tokLen)
	sortedToks := append([]string{}, toks...)
	sort.Strings(sortedToks)
	vlib.Parallel(len(pats), 0, func(i int) {
		p := pats[i]
		forms := []string{quoteFilter(p)}
		if p != "" {
			forms = append(forms, "f:"+p) // bare form
		}
		for _, q := range forms {
			judge(r, c13Case{Kind: "glob", Query: q, Tokens: toks, Ordered: false})
			judge(r, c13Case{Kind: "glob", Query: q, Tokens: sortedToks, Ordered: true})
		}
	})
	// (1b) the byte 0xff (the largest byte; never part of valid UTF-8) in tokens and patterns: case-sensitive
	// parsing keeps it as it is. Patterns over {a, 0xff, *} len<=3 x tokens over {a, 0xff} len<=3.
	{
		bwords := func(alpha []string, maxLen int) []string {
			res, prev := []string{""}, []string{""}
			for l := 1; l <= maxLen; l++ {
				var cur []string
				for _, p := range prev {
					for _, c := range alpha {
						cur = append(cur, p+c)
					}
				}
				res = append(res, cur...)
				prev = cur
			}
			return res
		}
		conf.CaseSensitive = true
		btoks := bwords([]string{"a", "\xff"}, 3)
		bsorted := append([]string{}, btoks...)
		sort.Strings(bsorted)
		for _, p := range bwords([]string{"a", "\xff", "*"}, 3) {
			if p == "" || strings.Contains(p, "**") {
				continue
			}
			judge(r, c13Case{Kind: "glob", Query: quoteFilter(p), Tokens: btoks, Ordered: false})
			judge(r, c13Case{Kind: "glob", Query: quoteFilter(p), Tokens: bsorted, Ordered: true})
		}
		conf.CaseSensitive = false
	}
	// (1c) U+E000, a character of the private use area, inside a filter value: a value without '*' is a plain text
	// and matches only the equal token (known finding: the SeqQL lexer uses U+E000 as its in-band wildcard mark)
	{
		ptoks := []string{"a", "a*b", "aXb", "ab", "a\ue000b"}
		judge(r, c13Case{Kind: "glob-pua", Query: quoteFilter("a\ue000b"), Tokens: ptoks, Ordered: false})
		judge(r, c13Case{Kind: "glob-pua", Query: quoteFilter("a\ue000b"), Tokens: ptoks, Ordered: true})
	}
	r.Sample(c13Case{Kind: "glob", Query: `f:"a*b*"`, Tokens: sortedToks[:8], Ordered: true})
	// ---- (2) ranges ----
	ends := []string{"*", `""`, "1", "2", "10", "-1", "1.5", "1e1", "a", "b", "ab", "0"}
	rtoks := append(words("ab", 2), "1", "2", "10", "-1", "1.5", "1e1", "01", "1.0", "0", "-0", "9", "11", "1.49", "2e0", "inf", "nan", "1a", "a1", "-", ".", "1.", ".5", "-1.5", "100", "1e2", "-2", "+1", "+1.5", "+1e1", "+", "+a")
	sortedR := append([]string{}, rtoks...)
	sort.Strings(sortedR)
	for _, f := range ends {
		for _, to := range ends {
			for _, lb := range []string{"[", "("} {
				for _, rb := range []string{"]", ")"} {
					q := "f:" + lb + f + ", " + to + rb
					judge(r, c13Case{Kind: "range", Query: q, Tokens: rtoks, Ordered: false})
					judge(r, c13Case{Kind: "range", Query: q, Tokens: sortedR, Ordered: true})
				}
			}
		}
	}
	// (2b) integer tokens around the 64-bit borders (unsigned ids and hashes look like this): all pairs of ends x
	// 4 bracket forms. "Compared as numbers" is read as the code documents it: as float64 values.
	{
		wends := []string{"*", "0", "9000000000000000000", "9223372036854775807", "-9223372036854775808", "18446744073709551615", "1e19", "-1e19"}
		wtoks := []string{"9223372036854775807", "9223372036854775808", "9999999999999999999", "-9223372036854775808", "-9223372036854775809",
			"-9999999999999999999", "18446744073709551615", "18446744073709551616", "99999999999999999999", "-99999999999999999999",
			"1e19", "100", "-5", "0", "4611686018427387904", "999999999999999999", "1000000000000000000", "+9999999999999999999", "x",
			"1.7976931348623157e308", "-1.7976931348623157e308", "5e-324"} // the largest and the smallest float64
		wsorted := append([]string{}, wtoks...)
		sort.Strings(wsorted)
		for _, f := range wends {
			for _, to := range wends {
				for _, lb := range []string{"[", "("} {
					for _, rb := range []string{"]", ")"} {
						q := "f:" + lb + f + ", " + to + rb
						judge(r, c13Case{Kind: "range", Query: q, Tokens: wtoks, Ordered: false})
						judge(r, c13Case{Kind: "range", Query: q, Tokens: wsorted, Ordered: true})
					}
				}
			}
		}
	}
	r.Sample(c13Case{Kind: "range", Query: "f:(1, 10]", Tokens: sortedR[:10], Ordered: true})
	// ---- (3) dictionaries x block layouts ----
	base := words("ab", 3) // 15 tokens
	sort.Strings(base)
	lpats := words("ab*", layoutPatLen)
	var dicts [][]string
	var rec func(start int, cur []string)
	rec = func(start int, cur []string) {
		if len(cur) > 0 {
			dicts = append(dicts, append([]string{}, cur...))
		}
		if len(cur) == dictMax {
			return
		}
		for i := start; i < len(base); i++ {
			rec(i+1, append(cur, base[i]))
		}
	}
	rec(0, nil)
	rangeQs := []string{"f:[a, b]", "f:(a, *]", "f:[*, ab)", `f:["", aa]`, "f:[1, 2]"}
	vlib.Parallel(len(dicts), 0, func(i int) {
		d := dicts[i]
		n := len(d)
		for mask := 0; mask < 1<<(n-1); mask++ {
			var split []int
			run := 1
			for b := 0; b < n-1; b++ {
				if mask&(1<<b) != 0 {
					split = append(split, run)
					run = 1
				} else {
					run++
				}
			}
			split = append(split, run)
			r.Add("layouts", 1)
			for _, p := range lpats {
				judge(r, c13Case{Kind: "layout", Query: quoteFilter(p), Tokens: d, Ordered: true, Split: split})
			}
			for _, q := range rangeQs {
				judge(r, c13Case{Kind: "layout", Query: q, Tokens: d, Ordered: true, Split: split})
			}
		}
	})
	// (3b) numeric dictionaries: number tokens sort as strings in the dictionary but a numeric range selects by
	// value, so a range whose ends share leading characters ([5, 50], [1, 19], [100, 1000]) selects tokens all over
	// the dictionary; (3c) tokens longer than the default token size limit (a raised limit is configuration) with a
	// long common prefix. Every sub-dictionary x every split into blocks, as above.
	allSplits := func(d []string, f func(split []int)) {
		n := len(d)
		for mask := 0; mask < 1<<(n-1); mask++ {
			var split []int
			run := 1
			for b := 0; b < n-1; b++ {
				if mask&(1<<b) != 0 {
					split = append(split, run)
					run = 1
				} else {
					run++
				}
			}
			f(append(split, run))
		}
	}
	subsets := func(base []string, max int) [][]string {
		var res [][]string
		var rec2 func(start int, cur []string)
		rec2 = func(start int, cur []string) {
			if len(cur) > 0 {
				res = append(res, append([]string{}, cur...))
			}
			if len(cur) == max {
				return
			}
			for i := start; i < len(base); i++ {
				rec2(i+1, append(cur, base[i]))
			}
		}
		rec2(0, nil)
		return res
	}
	nbase := []string{"1", "10", "100", "19", "2", "20", "49", "5", "50", "9", "x"}
	sort.Strings(nbase)
	nqueries := []string{"f:[5, 50]", "f:[1, 19]", "f:[100, 1000]", "f:(10, 19)", "f:[2, 20]", "f:[*, 19]", "f:[49, *]", `f:"1*"`, `f:"5*"`}
	ndicts := subsets(nbase, dictMax)
	vlib.Parallel(len(ndicts), 0, func(i int) {
		allSplits(ndicts[i], func(split []int) {
			r.Add("layouts", 1)
			for _, q := range nqueries {
				judge(r, c13Case{Kind: "layout", Query: q, Tokens: ndicts[i], Ordered: true, Split: split})
			}
		})
	})
	long := strings.Repeat("x", 71)
	lbase := []string{long, long + "a", long + "ab", long + "b", long + "ba", long[:70], "y"}
	sort.Strings(lbase)
	lqueries := []string{quoteFilter(long + "a"), quoteFilter(long + "a*"), quoteFilter(long + "*"), quoteFilter(long + "b*a"), quoteFilter(long[:70] + "*"), quoteFilter(long + "ab"), quoteFilter("*" + "a"), quoteFilter(long), quoteFilter(long + "*b")}
	for _, d := range subsets(lbase, 5) {
		allSplits(d, func(split []int) {
			r.Add("layouts", 1)
			for _, q := range lqueries {
				judge(r, c13Case{Kind: "layout", Query: q, Tokens: d, Ordered: true, Split: split})
			}
		})
	}
	// ---- (3b) the same glue on the REAL token provider and block loader over an index file: one 7-token dictionary
	// in EVERY two-level layout (every split into physical blocks x every split of each block into table entries,
	// so entries that continue a block - StartIndex > 0 - occur at every position), exact, prefix and wildcard filters
	{
		dtoks := []string{"a", "ab", "aba", "abb", "b", "ba", "bb"}
		dqueries := []string{`f:"*"`, `f:"a*"`, `f:"ab*"`, `f:"abb*"`, `f:"b*"`, `f:"ba*"`, `f:"c*"`, `f:"*b"`, `f:"a*b"`, `f:"*a*"`, `f:[a, b]`, `f:(ab, ba]`}
		for _, tk := range dtoks {
			dqueries = append(dqueries, quoteFilter(tk))
		}
		var twoLevel [][][]int
		allSplits(dtoks, func(split []int) {
			// every way to split each physical block into entries
			var rec func(bi int, cur [][]int)
			rec = func(bi int, cur [][]int) {
				if bi == len(split) {
					cp := make([][]int, len(cur))
					for i := range cur {
						cp[i] = append([]int{}, cur[i]...)
					}
					twoLevel = append(twoLevel, cp)
					return
				}
				blk := make([]string, split[bi])
				allSplits(blk, func(inner []int) {
					rec(bi+1, append(cur, append([]int{}, inner...)))
				})
			}
			rec(0, nil)
		})
		vlib.Parallel(len(twoLevel), 0, func(i int) {
			r.Add("layouts", 1)
			r.Add("disk_layouts", 1)
			for _, q := range dqueries {
				judge(r, c13Case{Kind: "disk", Query: q, Tokens: dtoks, Ordered: true, Layout: twoLevel[i]})
			}
		})
	}
	c13Pairs(r, nil)
	r.Sample(c13Case{Kind: "layout", Query: `f:"ab*"`, Tokens: []string{"a", "ab", "aba", "b"}, Ordered: true, Split: []int{1, 2, 1}})
	ev := r.Get("evaluations")
	r.Finish(t, "model_checking",
		fmt.Sprintf("all patterns over {a,b,*} len<=%d x all tokens over {a,b} len<=%d (quoted and bare query forms, ordered and unordered provider); the same over {a, byte 0xff} len<=3 with case-sensitive parsing; all ranges over %d ends x 4 bracket forms; all sorted dictionaries of <=%d tokens from the 15 tokens of len<=3 x every split into consecutive blocks x all patterns len<=%d; the same over sub-dictionaries of 11 number tokens x 9 numeric ranges / prefixes whose ends share leading characters, and of 7 tokens of 70-73 bytes with a common prefix x 9 patterns; one 7-token dictionary written to an index file in EVERY two-level layout (physical blocks x table entries per block, entries continuing a block included) and searched through the real token.Provider / BlockLoader with 19 exact / prefix / wildcard / range filters; on a real active and sealed fraction every ordered pair of 2x wildcard patterns (len<=3) and 4 numeric ranges resolved in ONE search (p1 OR p2, p1 AND NOT p2) vs the reference. non-trivial = the case matches some but not all tokens", patLen, tokLen, len(ends), dictMax, layoutPatLen),
		map[string]any{
			"states":                        r.DistinctCount("outcomes"),
			"transitions":                   ev,
			"traces_validated_against_impl": ev,
			"bounds":                        map[string]int{"pattern_len": patLen, "token_len": tokLen, "dict_max": dictMax, "layout_pattern_len": layoutPatLen, "dictionaries": len(dicts)},
		},
		[]string{"reference glob/range matcher in refdb is the specification", "the layout part mirrors the 6-line glue of sealedTokenIndex.GetTIDsByTokenExpr; the glue itself is exercised by C03"})
}
