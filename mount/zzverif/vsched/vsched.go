// Package vsched is a cooperative scheduler for exhaustive exploration of thread interleavings of the
// real code (stateless model checking with iterative preemption bounding).
//
// Harness threads are goroutines started through Run/Go; exactly one registered thread runs at a
// time. Every operation of the vsync shim (lock, rwlock, waitgroup, once) of a registered thread is a
// scheduling point: the thread publishes what it is about to do, the scheduler computes the enabled
// set, picks the next thread from the replayed prefix (or choice 0 = keep running / lowest id) and
// hands over a token. Goroutines that are not registered fall through to real primitives.
package vsched

import (
	"sync/atomic"
	"bytes"
	"fmt"
	"runtime"
	"strconv"
	"sync"
	"time"
)

func goid() int64 {
	var buf [64]byte
	n := runtime.Stack(buf[:], false)
	b := buf[:n]
	b = b[len("goroutine "):]
	i := bytes.IndexByte(b, ' ')
	id, _ := strconv.ParseInt(string(b[:i]), 10, 64)
	return id
}

type Thread struct {
	ID      int
	Name    string
	wake    chan struct{}
	done    bool
	blocked func() bool // non-nil: disabled while it returns true
	what    string      // last published operation (for traces)
	panicV  any
	atomic  int // >0: scheduling points are suppressed
}

type Point struct {
	Enabled        []int
	Running        int
	RunningEnabled bool
	Chosen         int
	What           string
}

type Exec struct {
	mu         sync.Mutex
	threads    []*Thread
	byGoid     map[int64]*Thread
	prefix     []int
	Points     []Point
	Choices    []int
	doneCh     chan struct{}
	finished   bool
	Deadlock   bool
	Livelock   bool
	Diverged   string
	StepBudget int
	Grace      time.Duration
	Trace      bool
}

var (
	active   *Exec
	activeMu sync.RWMutex
)

func Active() *Exec {
	activeMu.RLock()
	defer activeMu.RUnlock()
	return active
}

// Cur returns the registered thread of the calling goroutine, or nil.
func Cur() *Thread {
	e := Active()
	if e == nil {
		return nil
	}
	g := goid()
	e.mu.Lock()
	t := e.byGoid[g]
	e.mu.Unlock()
	return t
}

type Options struct {
	StepBudget int
	Grace      time.Duration // how long "no enabled thread" waits for unregistered goroutines before it is a deadlock
}

func (e *Exec) spawn(name string, body func()) *Thread {
	e.mu.Lock()
	t := &Thread{ID: len(e.threads), Name: name, wake: make(chan struct{}, 1)}
	e.threads = append(e.threads, t)
	e.mu.Unlock()
	ready := make(chan struct{})
	go func() {
		e.mu.Lock()
		e.byGoid[goid()] = t
		e.mu.Unlock()
		close(ready)
		<-t.wake
		defer func() {
			if r := recover(); r != nil {
				buf := make([]byte, 4096)
				n := runtime.Stack(buf, false)
				t.panicV = fmt.Sprintf("%v\n%s", r, buf[:n])
			}
			e.mu.Lock()
			t.done = true
			delete(e.byGoid, goid())
			e.mu.Unlock()
			e.schedule(t, true, "exit")
		}()
		body()
	}()
	<-ready
	return t
}

// Run executes bodies as controlled threads following prefix, then choice 0 at every later point.
func Run(prefix []int, opt Options, bodies ...func()) *Exec {
	e := &Exec{byGoid: map[int64]*Thread{}, prefix: prefix, doneCh: make(chan struct{}), StepBudget: opt.StepBudget, Grace: opt.Grace}
	if e.StepBudget == 0 {
		e.StepBudget = 200000
	}
	if e.Grace == 0 {
		e.Grace = 3 * time.Second
	}
	activeMu.Lock()
	if active != nil {
		activeMu.Unlock()
		panic("vsched: nested Run")
	}
	active = e
	activeMu.Unlock()
	for i, b := range bodies {
		e.spawn(fmt.Sprintf("T%d", i), b)
	}
	e.schedule(nil, false, "start")
	<-e.doneCh
	activeMu.Lock()
	active = nil
	activeMu.Unlock()
	return e
}

// Go starts fn as a new controlled thread when called from a registered thread (used for the
// per-fraction fan-out of Searcher / Fetcher, rewritten from `go func(){…}()` by the overlay);
// otherwise it is a plain go statement.
func Go(fn func()) {
	t := Cur()
	if t == nil {
		go fn()
		return
	}
	e := Active()
	e.spawn("", fn)
	// spawning is a scheduling point: the child may run first
	e.schedule(t, false, "spawn")
}

func (e *Exec) Panics() []string {
	var r []string
	for _, t := range e.threads {
		if t.panicV != nil {
			r = append(r, fmt.Sprintf("thread %d: %v", t.ID, t.panicV))
		}
	}
	return r
}

func (e *Exec) enabledLocked(from *Thread) ([]int, bool) {
	var enabled []int
	runEnabled := false
	if from != nil && !from.done && (from.blocked == nil || !from.blocked()) {
		enabled = append(enabled, from.ID)
		runEnabled = true
	}
	for _, t := range e.threads {
		if t == from || t.done {
			continue
		}
		if t.blocked != nil && t.blocked() {
			continue
		}
		enabled = append(enabled, t.ID)
	}
	return enabled, runEnabled
}

func (e *Exec) finish() {
	if !e.finished {
		e.finished = true
		close(e.doneCh)
	}
}

// schedule picks the next thread; called by the running thread (or nil at start).
func (e *Exec) schedule(from *Thread, exiting bool, what string) {
	e.mu.Lock()
	if e.finished {
		e.mu.Unlock()
		if !exiting {
			select {} // execution was aborted (deadlock/livelock): park
		}
		return
	}
	enabled, runEnabled := e.enabledLocked(from)
	if len(enabled) == 0 {
		alldone := true
		for _, t := range e.threads {
			if !t.done {
				alldone = false
			}
		}
		if alldone {
			e.finish()
			e.mu.Unlock()
			return
		}
		// some thread is blocked on something only an unregistered goroutine can release: wait for it
		deadline := time.Now().Add(e.Grace)
		for len(enabled) == 0 && time.Now().Before(deadline) {
			e.mu.Unlock()
			time.Sleep(50 * time.Microsecond)
			e.mu.Lock()
			enabled, runEnabled = e.enabledLocked(from)
		}
		if len(enabled) == 0 {
			e.Deadlock = true
			e.finish()
			e.mu.Unlock()
			if !exiting {
				select {}
			}
			return
		}
	}
	idx := len(e.Points)
	if idx >= e.StepBudget {
		e.Livelock = true
		e.finish()
		e.mu.Unlock()
		if !exiting {
			select {}
		}
		return
	}
	choice := 0
	if idx < len(e.prefix) {
		choice = e.prefix[idx]
		if choice >= len(enabled) {
			e.Diverged = fmt.Sprintf("replay divergence at point %d: choice %d of %d enabled (%s)", idx, choice, len(enabled), what)
			e.finish()
			e.mu.Unlock()
			if !exiting {
				select {}
			}
			return
		}
	}
	running := -1
	if from != nil {
		running = from.ID
	}
	p := Point{Enabled: enabled, Running: running, RunningEnabled: runEnabled, Chosen: choice}
	if e.Trace {
		p.What = what
	}
	e.Points = append(e.Points, p)
	e.Choices = append(e.Choices, choice)
	next := e.threads[enabled[choice]]
	next.blocked = nil
	e.mu.Unlock()
	if next == from {
		return
	}
	next.wake <- struct{}{}
	if !exiting && from != nil {
		<-from.wake
	}
}

// Yield is a scheduling point for the calling registered thread.
func Yield(what string) {
	t := Cur()
	if t == nil || t.atomic > 0 {
		return
	}
	Active().schedule(t, false, what)
}

// ExtraPoints switches on the optional scheduling points that the overlay injects at synchronisation operations
// the shim does not see (atomic offset reservation in frac.FileWriter.Write). A harness sets it for the scenarios
// whose question is the order of such operations; elsewhere the points stay off and cost no schedules.
var ExtraPoints atomic.Bool

// Extra is an optional scheduling point (see ExtraPoints).
func Extra(what string) {
	if ExtraPoints.Load() {
		Yield(what)
	}
}

// Block disables t while cond() is true and yields. cond is evaluated under the scheduler lock and
// must only take leaf locks.
func Block(t *Thread, cond func() bool, what string) {
	e := Active()
	e.mu.Lock()
	t.blocked = cond
	e.mu.Unlock()
	e.schedule(t, false, what)
}

// Atomic runs fn without scheduling points for the calling thread (blocking operations still switch).
func Atomic(fn func()) {
	t := Cur()
	if t == nil {
		fn()
		return
	}
	t.atomic++
	defer func() { t.atomic-- }()
	fn()
}

// ---------------------------------------------------------------------------------------------

type Stats struct {
	Execs      int
	MaxPoints  int
	MaxThreads int
	Bound      int
	Capped     bool
}

// Explore runs a depth-first search over schedules with at most `bound` preemptions (bound < 0:
// unbounded). mk creates fresh thread bodies for one execution; check judges one finished execution
// and returns false to stop. maxExecs > 0 caps the number of executions (reported in Stats.Capped).
func Explore(bound int, opt Options, maxExecs int, mk func() []func(), check func(*Exec) bool) Stats {
	st := Stats{Bound: bound}
	stop := false
	var rec func(prefix []int)
	rec = func(prefix []int) {
		if stop {
			return
		}
		if maxExecs > 0 && st.Execs >= maxExecs {
			st.Capped = true
			stop = true
			return
		}
		x := Run(prefix, opt, mk()...)
		st.Execs++
		if len(x.Points) > st.MaxPoints {
			st.MaxPoints = len(x.Points)
		}
		if len(x.threads) > st.MaxThreads {
			st.MaxThreads = len(x.threads)
		}
		if !check(x) {
			stop = true
			return
		}
		pre := 0
		for i := 0; i < len(x.Points); i++ {
			p := x.Points[i]
			if i >= len(prefix) {
				for alt := 1; alt < len(p.Enabled); alt++ {
					cost := pre
					if p.RunningEnabled {
						cost++
					}
					if bound >= 0 && cost > bound {
						continue
					}
					np := append(append([]int{}, x.Choices[:i]...), alt)
					rec(np)
					if stop {
						return
					}
				}
			}
			if p.RunningEnabled && p.Chosen != 0 {
				pre++
			}
		}
	}
	rec(nil)
	return st
}
