//go:build verif_proxy

package hproxy

// C19 (proxy part) — a finished asynchronous search fetched through the proxy is the merge over ALL shards.
// search.Ingestor.StartAsyncSearch / FetchAsyncSearchResult run against scripted stores. Every shard has
// exactly one replica that accepted the request (the first one whose StartAsyncSearch succeeded); on
// fetch that replica answers (done / not done) or fails transiently, the other replicas do not know the
// request (NotFound) or fail. The explorer enumerates every assignment. Oracle: a fetch that returns no
// error and Done=true carries exactly the IDs of every shard's finished result; if a holder is not done, the
// answer is not done.

import (
	"context"
	"errors"
	"fmt"
	"sort"
	"strings"
	"sync"
	"testing"
	"time"

	pb "github.com/ozontech/seq-db/pkg/storeapi"
	"github.com/ozontech/seq-db/proxy/search"
	"github.com/ozontech/seq-db/proxy/stores"
	"github.com/ozontech/seq-db/seq"
	"github.com/ozontech/seq-db/zzverif/vdec"
	"github.com/ozontech/seq-db/zzverif/vlib"
	"google.golang.org/grpc"
	"google.golang.org/grpc/codes"
	"google.golang.org/grpc/status"
	"google.golang.org/protobuf/types/known/timestamppb"
)

type asyncWorld struct {
	mu      sync.Mutex
	holder  map[int]string // shard -> replica that accepted the request
	notDone map[int]bool   // shard -> its holder answered "not done" in the fetch
	log     []string
}

type asyncStore struct {
	pb.StoreApiClient
	host  string
	shard int
	w     *asyncWorld
}

func (f *asyncStore) StartAsyncSearch(ctx context.Context, in *pb.StartAsyncSearchRequest, _ ...grpc.CallOption) (*pb.StartAsyncSearchResponse, error) {
	out := []string{"ok", "error"}[vdec.Ask("start/"+f.host, 2)]
	f.w.mu.Lock()
	defer f.w.mu.Unlock()
	f.w.log = append(f.w.log, "start "+f.host+"="+out)
	if out == "error" {
		return nil, status.Error(codes.Unavailable, "store unavailable")
	}
	f.w.holder[f.shard] = f.host
	return &pb.StartAsyncSearchResponse{}, nil
}

func (f *asyncStore) FetchAsyncSearchResult(ctx context.Context, in *pb.FetchAsyncSearchResultRequest, _ ...grpc.CallOption) (*pb.FetchAsyncSearchResultResponse, error) {
	f.w.mu.Lock()
	holds := f.w.holder[f.shard] == f.host
	f.w.mu.Unlock()
	alts := []string{"not-found", "unavailable"}
	if holds {
		alts = []string{"done", "not-done", "unavailable", "internal"}
	}
	out := alts[vdec.Ask("fetch/"+f.host, len(alts))]
	f.w.mu.Lock()
	f.w.log = append(f.w.log, "fetch "+f.host+"="+out)
	if out == "not-done" {
		f.w.notDone[f.shard] = true
	}
	f.w.mu.Unlock()
	switch out {
	case "not-found":
		return nil, status.Error(codes.NotFound, "async search not found")
	case "unavailable":
		return nil, status.Error(codes.Unavailable, "store is restarting")
	case "internal":
		return nil, errors.New("internal error")
	}
	resp := &pb.SearchResponse{}
	if out == "done" {
		for _, d := range shardCorpus("hot", f.shard) {
			resp.IdSources = append(resp.IdSources, &pb.SearchResponse_IdWithHint{Id: &pb.SearchResponse_Id{Mid: uint64(d.id.MID), Rid: uint64(d.id.RID)}, Hint: "f"})
		}
		resp.Total = 3
	}
	return &pb.FetchAsyncSearchResultResponse{Done: out == "done", Response: resp, Expiration: timestamppb.New(time.Unix(2_000_000_000, 0)), Order: pb.Order_ORDER_DESC}, nil
}

type c19pCase struct {
	Shards   int            `json:"shards"`
	Replicas int            `json:"replicas"`
	Assign   map[string]int `json:"assign"`
}

type c19pResult struct {
	w        *asyncWorld
	startErr error
	fetchErr error
	resp     search.FetchAsyncSearchResultResponse
	panicV   any
}

var c19pLast *c19pResult

func c19pRun(shards, replicas int) *c19pResult {
	res := &c19pResult{w: &asyncWorld{holder: map[int]string{}, notDone: map[int]bool{}}}
	clients := map[string]pb.StoreApiClient{}
	st := &stores.Stores{}
	for s := 0; s < shards; s++ {
		var hs []string
		for rp := 0; rp < replicas; rp++ {
			h := fmt.Sprintf("hot-s%d-r%d", s, rp)
			clients[h] = &asyncStore{host: h, shard: s, w: res.w}
			hs = append(hs, h)
		}
		st.Shards = append(st.Shards, hs)
		st.Vers = append(st.Vers, "")
	}
	empty := &stores.Stores{Shards: [][]string{}, Vers: []string{}}
	ing := search.NewIngestor(search.Config{HotStores: st, HotReadStores: empty, ReadStores: empty, WriteStores: empty}, clients)
	res.panicV = vlib.Catch(func() {
		ar, err := ing.StartAsyncSearch(context.Background(), search.AsyncRequest{Query: "*", From: time.Unix(0, 0), To: time.Unix(1<<31, 0), Order: seq.DocsOrderDesc})
		if err != nil {
			res.startErr = err
			return
		}
		res.resp, res.fetchErr = ing.FetchAsyncSearchResult(context.Background(), search.FetchAsyncSearchResultRequest{ID: ar.ID, Size: 100})
	})
	return res
}

func c19pCheck(r *vlib.Run, shards, replicas int, assign map[string]int) {
	res := c19pLast
	r.Add("evaluations", 1)
	c := c19pCase{shards, replicas, assign}
	topo := fmt.Sprintf("%dx%d", shards, replicas)
	detail := fmt.Sprintf("assignment %v\ncalls %v\nstart err=%v fetch err=%v done=%v ids=%d", assign, res.w.log, res.startErr, res.fetchErr, res.resp.Done, len(res.resp.QPR.IDs))
	if res.panicV != nil {
		r.Violation(fmt.Sprintf("async proxy %s: panic %v", topo, res.panicV), c, detail)
		return
	}
	outcome := "start-error"
	if res.startErr == nil {
		outcome = "fetch-error"
		if len(res.w.holder) != shards {
			r.Violation(fmt.Sprintf("async proxy %s: the search is reported as started although a shard has no replica that accepted it", topo), c, detail)
		}
	}
	if res.startErr == nil && res.fetchErr == nil {
		anyNotDone := len(res.w.notDone) > 0
		var want []string
		for s := 0; s < shards; s++ {
			for _, d := range shardCorpus("hot", s) {
				want = append(want, fmt.Sprintf("%d/%d", d.id.MID, d.id.RID))
			}
		}
		sort.Strings(want)
		var got []string
		for _, id := range res.resp.QPR.IDs {
			got = append(got, fmt.Sprintf("%d/%d", id.ID.MID, id.ID.RID))
		}
		sort.Strings(got)
		switch {
		case res.resp.Done && anyNotDone:
			r.Violation(fmt.Sprintf("async proxy %s: reported done although a shard is not done", topo), c, detail)
		case res.resp.Done && strings.Join(got, " ") != strings.Join(want, " "):
			r.Violation(fmt.Sprintf("async proxy %s: reported done with a result that is not the merge over all shards", topo), c, fmt.Sprintf("%s\ngot  %v\nwant %v", detail, got, want))
		}
		outcome = fmt.Sprintf("done=%v ids=%d", res.resp.Done, len(got))
	}
	r.Distinct("outcomes", topo+"|"+outcome)
	devs := 0
	for _, v := range assign {
		if v != 0 {
			devs++
		}
	}
	if devs == 0 && (res.startErr != nil || res.fetchErr != nil || !res.resp.Done) {
		r.Violation(fmt.Sprintf("async proxy %s: all stores healthy but the search is not fetched as done", topo), c, detail)
	}
	if devs > 0 {
		r.Distinct("nontrivial", topo+"|"+fmt.Sprint(assign))
	}
}

func TestVerifC19Proxy(t *testing.T) {
	r := vlib.NewRun("C19")
	var rc c19pCase
	if r.LoadReplay(&rc) {
		if rc.Shards == 0 { // a replay artefact of the store-level part: nothing to do here
			r.Finish(t, "fault_enumeration", "replay", nil, nil)
			return
		}
		vdec.Run(rc.Assign, func() { c19pLast = c19pRun(rc.Shards, rc.Replicas) })
		c19pCheck(r, rc.Shards, rc.Replicas, rc.Assign)
		r.Finish(t, "fault_enumeration", "replay", nil, nil)
		return
	}
	maxS, maxR := 2, 2
	if r.Thorough() {
		maxS, maxR = 3, 3
	}
	for s := 1; s <= maxS; s++ {
		for rp := 1; rp <= maxR; rp++ {
			s, rp := s, rp
			st := vdec.Explore(-1, 3_000_000, func() { c19pLast = c19pRun(s, rp) }, func(assign map[string]int) bool {
				c19pCheck(r, s, rp, assign)
				return !r.Expired()
			})
			r.Note("async proxy %dx%d executions=%d capped=%v", s, rp, st.Execs, st.Capped)
			if st.Capped {
				r.Cap(fmt.Sprintf("async proxy %dx%d stopped at %d executions", s, rp, st.Execs))
			}
		}
	}
	r.Sample(c19pCase{2, 2, map[string]int{"fetch/hot-s0-r0": 2}})
	ev := r.Get("evaluations")
	r.Finish(t, "fault_enumeration",
		fmt.Sprintf("proxy part of C19: search.Ingestor.StartAsyncSearch + FetchAsyncSearchResult against scripted stores, topologies {1..%d} shards x {1..%d} replicas, ALL assignments of: every StartAsyncSearch call (ok / unavailable), every fetch call (holder of the request: done / not done / unavailable / internal error; other replicas: not found / unavailable). Oracle: no error and Done => the IDs are exactly the merge over all shards and no holder was not-done; started => every shard has a holder; all healthy => done", maxS, maxR),
		map[string]any{"states": r.DistinctCount("outcomes"), "transitions": ev, "traces_validated_against_impl": ev},
		[]string{"the store that accepted StartAsyncSearch knows the request when it answers (a consistent store); replicas that did not accept it answer NotFound"})
}
