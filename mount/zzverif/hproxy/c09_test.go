//go:build verif_proxy

package hproxy

// C09 — a bulk is acknowledged only when a full replica set holds it in every tier.
// The real bulk.SeqDBClient.StoreDocuments runs against scripted store clients; the explorer (vdec)
// enumerates every assignment of per-call outcomes (ok / error / deadline), per-attempt circuit-breaker
// states (closed / open) and shard shuffles, unbounded for small topologies and with a deviation
// bound beyond. time.Sleep back-off is removed (vtime), util.IdxShuffle is answered by the explorer.

import (
	"context"
	"crypto/sha256"
	"encoding/json"
	"errors"
	"fmt"
	"runtime"
	"sort"
	"strings"
	"sync"
	"testing"
	"time"

	"github.com/ozontech/seq-db/consts"
	"github.com/ozontech/seq-db/network/circuitbreaker"
	pb "github.com/ozontech/seq-db/pkg/storeapi"
	"github.com/ozontech/seq-db/proxy/bulk"
	"github.com/ozontech/seq-db/proxy/stores"
	"github.com/ozontech/seq-db/zzverif/vdec"
	"github.com/ozontech/seq-db/zzverif/vlib"
	"github.com/ozontech/seq-db/zzverif/vrand"
	"github.com/ozontech/seq-db/zzverif/vtime"
	"google.golang.org/grpc"
	"google.golang.org/grpc/codes"
	"google.golang.org/grpc/status"
	"google.golang.org/protobuf/types/known/emptypb"
)

type callRec struct {
	Host    string
	N       int
	Payload string
	Outcome string
	Phase   int // 1: the explored bulk, 2: the follow-up bulk sent to healthy stores through the same client
}

type bulkWorld struct {
	mu     sync.Mutex
	calls  []callRec
	nth    map[string]int
	cancel context.CancelFunc // cancels the request context (outcome "cancelled")
	phase  int
}

type fakeStore struct {
	pb.StoreApiClient
	host string
	w    *bulkWorld
}

func (f *fakeStore) Bulk(ctx context.Context, in *pb.BulkRequest, _ ...grpc.CallOption) (*emptypb.Empty, error) {
	f.w.mu.Lock()
	f.w.nth[f.host]++
	n := f.w.nth[f.host]
	f.w.mu.Unlock()
	h := sha256.Sum256(append(append([]byte(fmt.Sprint(in.Count, "|")), in.Docs...), in.Metas...))
	// ok / store error / call deadline / the client goes away: the REQUEST context is cancelled during the call
	f.w.mu.Lock()
	phase := f.w.phase
	f.w.mu.Unlock()
	out := "ok" // the follow-up bulk meets healthy stores: nothing is asked
	if phase == 1 {
		out = []string{"ok", "error", "deadline", "cancelled", "canceled-status"}[vdec.Ask(fmt.Sprintf("bulk/%s/#%d", f.host, n), 5)]
	}
	f.w.mu.Lock()
	f.w.calls = append(f.w.calls, callRec{Host: f.host, N: n, Payload: fmt.Sprintf("%x", h[:6]), Outcome: out, Phase: phase})
	f.w.mu.Unlock()
	switch out {
	case "error":
		return nil, errors.New("store unavailable")
	case "deadline":
		return nil, context.DeadlineExceeded
	case "cancelled":
		f.w.cancel()
		return nil, context.Canceled
	case "canceled-status":
		// the call is answered with the gRPC status Canceled (the store's handler context was cancelled, a balancer
		// reset the stream) while the request context of the proxy stays alive
		return nil, status.Error(codes.Canceled, "context canceled")
	}
	return &emptypb.Empty{}, nil
}

type topo struct {
	HotShards, HotReplicas   int
	ColdShards, ColdReplicas int
}

func (t topo) String() string {
	return fmt.Sprintf("hot%dx%d-cold%dx%d", t.HotShards, t.HotReplicas, t.ColdShards, t.ColdReplicas)
}

func hosts(tier string, s, r int) [][]string {
	var res [][]string
	for i := 0; i < s; i++ {
		var rs []string
		for j := 0; j < r; j++ {
			rs = append(rs, fmt.Sprintf("%s-s%d-r%d", tier, i, j))
		}
		res = append(res, rs)
	}
	return res
}

type c09Case struct {
	Topo    topo           `json:"topo"`
	Assign  map[string]int `json:"assign"`
	Overlap bool           `json:"overlap,omitempty"` // the overlapping-bulks scenario (c09_overlap_test.go)
}

var breakerCfg = circuitbreaker.Config{Timeout: time.Minute, MaxConcurrent: 1000, NumBuckets: 10, BucketWidth: time.Second, RequestVolumeThreshold: 1 << 40, ErrorThresholdPercentage: 100, SleepWindow: time.Hour}

// setBreakers asks the explorer for the state of every shard breaker before an attempt.
func setBreakers(tp topo, attempt int) {
	for tier, n := range map[string]int{"bulk_hot": tp.HotShards, "bulk_write": tp.ColdShards} {
		for s := 0; s < n; s++ {
			b := circuitbreaker.New(fmt.Sprintf("%s-shard-%d", tier, s), breakerCfg)
			if vdec.Ask(fmt.Sprintf("breaker/%s/s%d/attempt%d", tier, s, attempt), 2) == 1 {
				b.OpenCircuit()
			} else {
				b.CloseCircuit()
			}
		}
	}
}

// runC09 performs one StoreDocuments call in the current explorer execution and judges it.
func runC09(r *vlib.Run, tp topo, assign map[string]int) func() {
	var w *bulkWorld
	var err, err2 error
	payloadDocs, payloadMetas := []byte("docs-block-bytes"), []byte("metas-block-bytes")
	body := func() {
		ctx, cancel := context.WithCancel(context.Background())
		defer cancel()
		w = &bulkWorld{nth: map[string]int{}, cancel: cancel, phase: 1}
		vrand.ResetSeq()
		clients := map[string]pb.StoreApiClient{}
		hot := &stores.Stores{Shards: hosts("hot", tp.HotShards, tp.HotReplicas)}
		cold := &stores.Stores{Shards: hosts("cold", tp.ColdShards, tp.ColdReplicas)}
		for _, sh := range append(append([][]string{}, hot.Shards...), cold.Shards...) {
			for _, h := range sh {
				clients[h] = &fakeStore{host: h, w: w}
			}
		}
		attempt := 0
		setBreakers(tp, attempt)
		vtime.SleepHook = func(time.Duration) {
			attempt++
			setBreakers(tp, attempt)
		}
		c := bulk.NewSeqDBClient(hot, cold, breakerCfg, clients)
		err = c.StoreDocuments(ctx, 2, payloadDocs, payloadMetas)
		// a second bulk through the same client: all stores healthy, all breakers closed, a live context. Whatever
		// the first bulk left behind in the client (pooled status objects) must not leak into this one.
		w.mu.Lock()
		w.phase = 2
		w.mu.Unlock()
		vtime.SleepHook = func(time.Duration) {}
		vrand.Quiet.Store(true)
		for tier, n := range map[string]int{"bulk_hot": tp.HotShards, "bulk_write": tp.ColdShards} {
			for s := 0; s < n; s++ {
				circuitbreaker.New(fmt.Sprintf("%s-shard-%d", tier, s), breakerCfg).CloseCircuit()
			}
		}
		err2 = c.StoreDocuments(context.Background(), 3, []byte("second-bulk-docs"), []byte("second-bulk-metas"))
		vrand.Quiet.Store(false)
		vtime.SleepHook = nil
	}
	_ = assign
	return func() {
		body()
		_ = w
		c09Judge(r, tp, w, err, payloadDocs, payloadMetas)
		lastErr2 = err2
	}
}

var lastWorld *bulkWorld
var lastErr, lastErr2 error

func c09Judge(r *vlib.Run, tp topo, w *bulkWorld, err error, docs, metas []byte) {
	lastWorld, lastErr = w, err
}

func c09Check(r *vlib.Run, tp topo, assign map[string]int) {
	w, err := lastWorld, lastErr
	r.Add("evaluations", 1)
	want := sha256.Sum256(append(append([]byte(fmt.Sprint(2, "|")), []byte("docs-block-bytes")...), []byte("metas-block-bytes")...))
	wantP := fmt.Sprintf("%x", want[:6])
	okBy := map[string]bool{}
	maxN := 0
	var log []string
	want2 := sha256.Sum256(append(append([]byte(fmt.Sprint(3, "|")), []byte("second-bulk-docs")...), []byte("second-bulk-metas")...))
	want2P := fmt.Sprintf("%x", want2[:6])
	ok2By := map[string]bool{}
	var log2 []string
	for _, c := range w.calls {
		if c.Phase == 2 {
			log2 = append(log2, fmt.Sprintf("%s#%d=%s", c.Host, c.N, c.Outcome))
			if c.Payload == want2P && c.Outcome == "ok" {
				ok2By[c.Host] = true
			}
			continue
		}
		log = append(log, fmt.Sprintf("%s#%d=%s", c.Host, c.N, c.Outcome))
		if c.Payload != wantP {
			r.Violation(fmt.Sprintf("%s: a store received a payload different from the request", tp), c09Case{Topo: tp, Assign: assign}, strings.Join(log, " "))
		}
		if c.Outcome == "ok" {
			okBy[c.Host] = true
		}
		maxN = max(maxN, c.N)
	}
	sort.Strings(log)
	full := func(tier string, shards, replicas int) bool {
		if shards == 0 {
			return true
		}
		for s := 0; s < shards; s++ {
			all := true
			for rp := 0; rp < replicas; rp++ {
				if !okBy[fmt.Sprintf("%s-s%d-r%d", tier, s, rp)] {
					all = false
				}
			}
			if all {
				return true
			}
		}
		return false
	}
	cse := c09Case{Topo: tp, Assign: assign}
	detail := fmt.Sprintf("assignment %v\ncalls %v\nreturned err=%v", assign, log, err)
	if err == nil {
		if !full("hot", tp.HotShards, tp.HotReplicas) {
			r.Violation(fmt.Sprintf("%s: acknowledged without a fully written hot shard", tp), cse, detail)
		}
		if !full("cold", tp.ColdShards, tp.ColdReplicas) {
			r.Violation(fmt.Sprintf("%s: acknowledged without a fully written long-term shard", tp), cse, detail)
		}
	}
	// the follow-up bulk: healthy stores => acknowledged, and acknowledged => a full replica set holds ITS payload
	full2 := func(tier string, shards, replicas int) bool {
		if shards == 0 {
			return true
		}
		for s := 0; s < shards; s++ {
			all := true
			for rp := 0; rp < replicas; rp++ {
				if !ok2By[fmt.Sprintf("%s-s%d-r%d", tier, s, rp)] {
					all = false
				}
			}
			if all {
				return true
			}
		}
		return false
	}
	detail2 := fmt.Sprintf("%s\nfollow-up bulk calls %v\nreturned err=%v", detail, log2, lastErr2)
	if lastErr2 != nil {
		r.Violation(fmt.Sprintf("%s: a bulk to healthy stores fails after an earlier bulk through the same client", tp), cse, detail2)
	} else if !full2("hot", tp.HotShards, tp.HotReplicas) || !full2("cold", tp.ColdShards, tp.ColdReplicas) {
		r.Violation(fmt.Sprintf("%s: the follow-up bulk is acknowledged without a full replica set holding it", tp), cse, detail2)
	}
	if maxN > consts.BulkMaxTries {
		r.Violation(fmt.Sprintf("%s: a replica was called more than BulkMaxTries times", tp), cse, detail)
	}
	devs := 0
	for _, v := range assign {
		if v != 0 {
			devs++
		}
	}
	if devs == 0 && err != nil {
		r.Violation(fmt.Sprintf("%s: bulk failed although every call succeeded", tp), cse, detail)
	}
	outcome := "ack"
	if err != nil {
		outcome = "fail"
	}
	r.Distinct("outcomes", tp.String()+"|"+outcome+"|"+strings.Join(log, " "))
	if devs > 0 {
		r.Distinct("nontrivial", tp.String()+"|"+fmt.Sprint(assign))
	}
}

type c09Plan struct {
	tp    topo
	bound int
}

type c09Job struct {
	Idx     int  `json:"idx"`
	Overlap bool `json:"overlap,omitempty"`
}

func c09Plans(thorough bool) ([]c09Plan, int) {
	var plans []c09Plan
	bigBound := 4
	if thorough {
		bigBound = 7
	}
	for hs := 1; hs <= 3; hs++ {
		for hr := 1; hr <= 3; hr++ {
			for _, cold := range [][2]int{{0, 0}, {1, 1}, {1, 2}, {2, 1}, {2, 2}} {
				tp := topo{hs, hr, cold[0], cold[1]}
				b := bigBound
				if hs*hr <= 2 && cold[0]*cold[1] <= 1 {
					b = -1 // unbounded
				}
				if hs*hr >= 6 && cold[0]*cold[1] >= 2 {
					b = bigBound - 1
				}
				plans = append(plans, c09Plan{tp, b})
			}
		}
	}
	return plans, bigBound
}

// c09Handle explores one plan inside a worker subprocess.
func c09Handle(job json.RawMessage) any {
	var j c09Job
	if err := json.Unmarshal(job, &j); err != nil {
		panic(err)
	}
	r := vlib.NewSubRun("C09")
	if j.Overlap {
		c09HandleOverlap(r, j.Idx)
		return r.Export()
	}
	plans, _ := c09Plans(r.Thorough())
	p := plans[j.Idx]
	tp := p.tp
	st := vdec.Explore(p.bound, 3_000_000, runC09(r, tp, nil), func(assign map[string]int) bool {
		c09Check(r, tp, assign)
		return !r.Expired()
	})
	r.Note("%s bound=%d executions=%d max_events=%d capped=%v", tp, p.bound, st.Execs, st.MaxAsked, st.Capped)
	if st.Capped {
		r.Cap(fmt.Sprintf("%s stopped at %d executions", tp, st.Execs))
	}
	r.Add("topologies", 1)
	return r.Export()
}

// TestVerifWorker serves the plan workers of C09 and C16.
func TestVerifWorker(t *testing.T) {
	vlib.ServeWorker(map[string]vlib.Handler{"c09": c09Handle, "c16": c16Handle})
}

func TestVerifC09(t *testing.T) {
	r := vlib.NewRun("C09")
	var rc c09Case
	if r.LoadReplay(&rc) {
		if rc.Overlap {
			old := runtime.GOMAXPROCS(1)
			vdec.Run(rc.Assign, runC09Overlap(rc.Topo))
			runtime.GOMAXPROCS(old)
			c09OverlapCheck(r, rc.Topo, rc.Assign)
			r.Finish(t, "fault_enumeration", "replay", nil, nil)
			return
		}
		vdec.Run(rc.Assign, runC09(r, rc.Topo, rc.Assign))
		c09Check(r, rc.Topo, rc.Assign)
		r.Finish(t, "fault_enumeration", "replay", nil, nil)
		return
	}
	plans, bigBound := c09Plans(r.Thorough())
	// the explorer's state is process-global: the plans are sharded over worker subprocesses
	pool := vlib.NewPool("c09", vlib.Workers())
	defer pool.Close()
	nOv := len(c09OverlapTopos)
	vlib.Parallel(len(plans)+nOv, vlib.Workers(), func(i int) {
		if r.Expired() {
			return
		}
		job, tp := c09Job{Idx: i}, topo{}
		if i < nOv { // the overlapping-bulks scenario first
			job, tp = c09Job{Idx: i, Overlap: true}, c09OverlapTopos[i]
		} else {
			job.Idx = i - nOv
			tp = plans[i-nOv].tp
		}
		var exp vlib.Export
		jr, err := pool.Do(job, &exp, 40*time.Minute)
		switch {
		case err != nil:
			panic(err)
		case jr.Died:
			r.Violation(fmt.Sprintf("bulk client process died %s overlap=%v", tp, job.Overlap), c09Case{Topo: tp, Overlap: job.Overlap}, jr.Stderr)
		case jr.Hung:
			r.Cap(fmt.Sprintf("%s overlap=%v did not finish within the horizon", tp, job.Overlap))
		default:
			r.Merge(exp)
		}
	})
	r.Sample(c09Case{Topo: topo{2, 2, 1, 1}, Assign: map[string]int{"bulk/hot-s0-r1/#1": 1, "breaker/bulk_hot/s1/attempt0": 1}})
	ev := r.Get("evaluations")
	r.Finish(t, "fault_enumeration",
		fmt.Sprintf("topologies hot {1..3}x{1..3} x long-term {none,1x1,1x2,2x1,2x2}; environment events: every store call (ok / error / call deadline / request context cancelled during the call / answered with status Canceled while the request lives), every shard circuit breaker before every attempt (closed / open), every shard shuffle (all permutations); all assignments for topologies with <=2 hot replicas in total and <=1 long-term replica, at most %d deviations from the default answers beyond (one less for the largest); oracle on the recorded call log: acknowledged => a hot shard all of whose replicas have a successful call with exactly the payload, and the same for the long-term tier; no replica called more than BulkMaxTries times; all-default => acknowledged; after every explored bulk a second bulk is sent through the same client to healthy stores and must be acknowledged with a full replica set holding its own payload. Overlapping bulks: the real bulk.Ingestor on the real client, topologies 1x2, 2x2, 1x3, 1x2+1x1, 1x1+1x2, every store call of bulk A ok / error and, at every such call, optionally a second bulk B running to completion through the same ingestor (once), at most "+fmt.Sprint(c09OverlapBound(r.Thorough()))+" deviations; acknowledged => a full replica set accepted exactly the bytes first sent for that bulk (A and B). distinct_nontrivial = distinct assignments with at least one deviation", bigBound),
		map[string]any{
			"states":                        r.DistinctCount("outcomes"),
			"transitions":                   ev,
			"traces_validated_against_impl": ev,
			"topologies":                    r.Get("topologies"),
		},
		[]string{"back-off sleeps are removed, circuit breakers are forced open/closed between attempts instead of opening by error rate", "call outcomes are keyed by (replica, n-th call) so the verdict does not depend on goroutine arrival order"})
}
