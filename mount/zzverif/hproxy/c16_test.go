//go:build verif_proxy

package hproxy

// C16 — proxy reads degrade honestly: complete if all shards answer, else marked partial.
// The real search.Ingestor.Search (with document fetch) runs against scripted store clients holding
// small corpora; the explorer enumerates per-call behaviours of Search (ok / error / wants-old-data in
// both forms / too-many-fractions) and of Fetch (ok / open error / stream breaking after j documents /
// a missing document / an extra unknown document / two documents swapped) and replica shuffles.

import (
	"context"
	"encoding/json"
	"errors"
	"fmt"
	"io"
	"sort"
	"strings"
	"sync"
	"testing"
	"time"

	"github.com/ozontech/seq-db/consts"
	"github.com/ozontech/seq-db/disk"
	pb "github.com/ozontech/seq-db/pkg/storeapi"
	"github.com/ozontech/seq-db/proxy/search"
	"github.com/ozontech/seq-db/proxy/stores"
	"github.com/ozontech/seq-db/querytracer"
	"github.com/ozontech/seq-db/seq"
	"github.com/ozontech/seq-db/zzverif/vdec"
	"github.com/ozontech/seq-db/zzverif/vlib"
	"github.com/ozontech/seq-db/zzverif/vrand"
	"google.golang.org/grpc"
	"google.golang.org/grpc/codes"
	"google.golang.org/grpc/status"
)

type sdoc struct {
	id   seq.ID
	body string
}

func shardCorpus(tier string, s int) []sdoc {
	var res []sdoc
	base := 1000
	if tier == "cold" {
		base = 500
	}
	for k := 0; k < 3; k++ {
		id := seq.ID{MID: seq.MID(base + 10*k + s), RID: seq.RID(s + 1)}
		res = append(res, sdoc{id, fmt.Sprintf("doc-%s-%d-%d", tier, id.MID, id.RID)})
	}
	return res
}

type readWorld struct {
	mu       sync.Mutex
	nth      map[string]int
	answered map[string]bool // shard key -> some replica answered the search
	searched map[string]bool // tier -> was asked
	log      []string
}

type readStore struct {
	pb.StoreApiClient
	host, tier string
	shard      int
	w          *readWorld
}

func (f *readStore) next(kind string) int {
	f.w.mu.Lock()
	defer f.w.mu.Unlock()
	f.w.nth[kind+f.host]++
	return f.w.nth[kind+f.host]
}

func (f *readStore) writeOnly(what string) bool {
	if f.tier != "hotw" {
		return false
	}
	f.w.mu.Lock()
	f.w.log = append(f.w.log, fmt.Sprintf("write-only host %s asked to %s", f.host, what))
	f.w.mu.Unlock()
	return true
}

func (f *readStore) Search(ctx context.Context, in *pb.SearchRequest, _ ...grpc.CallOption) (*pb.SearchResponse, error) {
	if f.writeOnly("search") {
		return nil, errors.New("not a read store")
	}
	n := f.next("search/")
	alts := []string{"ok", "error", "old-data-code", "old-data-msg", "too-many-fractions"}
	if f.tier == "cold" {
		alts = []string{"ok", "error"}
	}
	out := alts[vdec.Ask(fmt.Sprintf("search/%s/#%d", f.host, n), len(alts))]
	f.w.mu.Lock()
	f.w.searched[f.tier] = true
	f.w.log = append(f.w.log, fmt.Sprintf("search %s#%d=%s", f.host, n, out))
	f.w.mu.Unlock()
	switch out {
	case "error":
		return nil, errors.New("store unavailable")
	case "old-data-code":
		return &pb.SearchResponse{Code: pb.SearchErrorCode_INGESTOR_QUERY_WANTS_OLD_DATA}, nil
	case "old-data-msg":
		return nil, status.Error(codes.Unknown, consts.ErrIngestorQueryWantsOldData.Error())
	case "too-many-fractions":
		return &pb.SearchResponse{Code: pb.SearchErrorCode_TOO_MANY_FRACTIONS_HIT}, nil
	}
	f.w.mu.Lock()
	f.w.answered[fmt.Sprintf("%s/%d", f.tier, f.shard)] = true
	f.w.mu.Unlock()
	docs := shardCorpus(f.tier, f.shard)
	asc := in.Order == pb.Order_ORDER_ASC
	sort.Slice(docs, func(i, j int) bool {
		if asc {
			return seq.Less(docs[i].id, docs[j].id)
		}
		return seq.Less(docs[j].id, docs[i].id)
	})
	limit := int(in.Size + in.Offset)
	resp := &pb.SearchResponse{}
	for i, d := range docs {
		if i >= limit {
			break
		}
		resp.IdSources = append(resp.IdSources, &pb.SearchResponse_IdWithHint{Id: &pb.SearchResponse_Id{Mid: uint64(d.id.MID), Rid: uint64(d.id.RID)}, Hint: "f"})
	}
	if in.WithTotal {
		resp.Total = uint64(len(docs))
	}
	return resp, nil
}

type fetchStream struct {
	grpc.ClientStream
	blocks  [][]byte
	breakAt int // -1: never
	pos     int
}

func (s *fetchStream) Recv() (*pb.BinaryData, error) {
	if s.breakAt >= 0 && s.pos >= s.breakAt {
		return nil, errors.New("stream broken")
	}
	if s.pos >= len(s.blocks) {
		return nil, io.EOF
	}
	b := s.blocks[s.pos]
	s.pos++
	return &pb.BinaryData{Data: b}, nil
}

func packDoc(id seq.ID, body string) []byte {
	blk := disk.PackDocBlock([]byte(body), nil)
	blk.SetExt1(uint64(id.MID))
	blk.SetExt2(uint64(id.RID))
	return blk
}

func (f *readStore) Fetch(ctx context.Context, in *pb.FetchRequest, _ ...grpc.CallOption) (pb.StoreApi_FetchClient, error) {
	if f.writeOnly("fetch") {
		return nil, errors.New("not a read store")
	}
	n := f.next("fetch/")
	alts := []string{"ok", "open-error", "break-after-0", "break-after-1", "missing-doc", "extra-unknown-doc", "swapped"}
	out := alts[vdec.Ask(fmt.Sprintf("fetch/%s/#%d", f.host, n), len(alts))]
	f.w.mu.Lock()
	f.w.log = append(f.w.log, fmt.Sprintf("fetch %s#%d=%s ids=%d", f.host, n, out, len(in.IdsWithHints)))
	f.w.mu.Unlock()
	if out == "open-error" {
		return nil, errors.New("store unavailable")
	}
	bodies := map[seq.ID]string{}
	for _, d := range shardCorpus(f.tier, f.shard) {
		bodies[d.id] = d.body
	}
	st := &fetchStream{breakAt: -1}
	for i, idh := range in.IdsWithHints {
		id, err := seq.FromString(idh.Id)
		if err != nil {
			return nil, err
		}
		body := bodies[id]
		if out == "missing-doc" && i == 0 {
			body = ""
		}
		st.blocks = append(st.blocks, packDoc(id, body))
	}
	switch out {
	case "break-after-0":
		st.breakAt = 0
	case "break-after-1":
		st.breakAt = 1
	case "extra-unknown-doc":
		extra := packDoc(seq.ID{MID: 7, RID: seq.RID(100 + f.shard)}, "stranger")
		st.blocks = append([][]byte{extra}, st.blocks...)
	case "swapped":
		if len(st.blocks) >= 2 {
			st.blocks[0], st.blocks[1] = st.blocks[1], st.blocks[0]
		}
	}
	return st, nil
}

type rtopo struct {
	HotShards, HotReplicas   int
	ColdShards, ColdReplicas int
	Offset, Size             int
	Asc                      bool
	// HotRead: reads are served from --hot-read-stores (the usual hot shards), while --hot-stores names other
	// hosts (write-only replicas), which must never be asked to search or fetch
	HotRead bool `json:"HotRead,omitempty"`
}

func (t rtopo) String() string {
	hr := ""
	if t.HotRead {
		hr = " hot-read-stores"
	}
	return fmt.Sprintf("hot%dx%d-cold%dx%d off=%d size=%d asc=%v%s", t.HotShards, t.HotReplicas, t.ColdShards, t.ColdReplicas, t.Offset, t.Size, t.Asc, hr)
}

type c16Case struct {
	Topo   rtopo          `json:"topo"`
	Assign map[string]int `json:"assign"`
}

type c16Result struct {
	w       *readWorld
	qpr     *seq.QPR
	docs    []search.StreamingDoc
	err     error
	panicV  any
	entries int
}

func c16Run(tp rtopo) *c16Result {
	res := &c16Result{w: &readWorld{nth: map[string]int{}, answered: map[string]bool{}, searched: map[string]bool{}}}
	vrand.ResetSeq()
	clients := map[string]pb.StoreApiClient{}
	mk := func(tier string, shards, replicas int) *stores.Stores {
		st := &stores.Stores{Shards: [][]string{}, Vers: []string{}}
		for s := 0; s < shards; s++ {
			var hs []string
			for r := 0; r < replicas; r++ {
				h := fmt.Sprintf("%s-s%d-r%d", tier, s, r)
				clients[h] = &readStore{host: h, tier: tier, shard: s, w: res.w}
				hs = append(hs, h)
			}
			st.Shards = append(st.Shards, hs)
			st.Vers = append(st.Vers, "")
		}
		return st
	}
	hot := mk("hot", tp.HotShards, tp.HotReplicas)
	cold := mk("cold", tp.ColdShards, tp.ColdReplicas)
	empty := &stores.Stores{Shards: [][]string{}, Vers: []string{}}
	hotRead := empty
	if tp.HotRead {
		hotRead = hot
		hot = mk("hotw", 1, 2) // write-only replicas: any call to them is logged and fails
	}
	ing := search.NewIngestor(search.Config{HotStores: hot, HotReadStores: hotRead, ReadStores: cold, WriteStores: empty, ShuffleReplicas: true}, clients)
	order := seq.DocsOrderDesc
	if tp.Asc {
		order = seq.DocsOrderAsc
	}
	sr := &search.SearchRequest{Q: []byte("*"), Offset: tp.Offset, Size: tp.Size, From: 0, To: 1 << 40, WithTotal: true, ShouldFetch: true, Order: order}
	res.panicV = vlib.Catch(func() {
		qpr, stream, _, err := ing.Search(context.Background(), sr, querytracer.New(false, "verif"))
		res.qpr, res.err = qpr, err
		// snapshot of what the stores saw when Search returned: shard goroutines abandoned by an early
		// return (wants-old-data, too-many-fractions) may still be running and are not part of the answer
		res.w.mu.Lock()
		snap := &readWorld{nth: map[string]int{}, answered: map[string]bool{}, searched: map[string]bool{}}
		for k, v := range res.w.answered {
			snap.answered[k] = v
		}
		for k, v := range res.w.searched {
			snap.searched[k] = v
		}
		snap.log = append([]string{}, res.w.log...)
		res.w.mu.Unlock()
		defer func() { res.w = snap }()
		if stream != nil {
			for i := 0; i < 50; i++ {
				d, e := stream.Next()
				if e != nil {
					break
				}
				res.docs = append(res.docs, d)
			}
		}
	})
	return res
}

var c16Last *c16Result

func c16Check(r *vlib.Run, tp rtopo, assign map[string]int) {
	res := c16Last
	r.Add("evaluations", 1)
	cse := c16Case{tp, assign}
	sort.Strings(res.w.log)
	detail := fmt.Sprintf("assignment %v\ncalls %v\nerr=%v", assign, res.w.log, res.err)
	if res.panicV != nil {
		r.Violation(fmt.Sprintf("proxy search panics: %v", trunc(fmt.Sprint(res.panicV), 80)), cse, detail+fmt.Sprintf("\npanic %v", res.panicV))
		return
	}
	for _, l := range res.w.log {
		if strings.HasPrefix(l, "write-only host") {
			r.Violation("with --hot-read-stores configured a host that is only in --hot-stores was asked "+tp.String(), cse, detail)
			return
		}
	}
	partial := errors.Is(res.err, consts.ErrPartialResponse)
	if res.err != nil && !partial {
		// a plain error is always an honest answer; but it must not hide a usable tier: if every hot shard
		// answered there is nothing to complain about in an error-free assignment
		devs := 0
		for _, v := range assign {
			if v != 0 {
				devs++
			}
		}
		if devs == 0 {
			r.Violation("search failed although every call succeeded "+tp.String(), cse, detail)
		}
		r.Distinct("outcomes", tp.String()+"|error")
		return
	}
	// which tier produced the answer
	tier, shards := "hot", tp.HotShards
	oldData := false
	for _, l := range res.w.log {
		if strings.Contains(l, "old-data") {
			oldData = true
		}
	}
	if oldData {
		if !res.w.searched["cold"] {
			r.Violation("a hot store declared the range older than its retention but the long-term stores were not consulted "+tp.String(), cse, detail)
			return
		}
		tier, shards = "cold", tp.ColdShards
	} else if res.w.searched["cold"] {
		r.Violation("long-term stores consulted without a wants-old-data answer "+tp.String(), cse, detail)
	}
	var docs []sdoc
	missing := 0
	for s := 0; s < shards; s++ {
		if res.w.answered[fmt.Sprintf("%s/%d", tier, s)] {
			docs = append(docs, shardCorpus(tier, s)...)
		} else {
			missing++
		}
	}
	sort.Slice(docs, func(i, j int) bool {
		if tp.Asc {
			return seq.Less(docs[i].id, docs[j].id)
		}
		return seq.Less(docs[j].id, docs[i].id)
	})
	var want []sdoc
	for i := tp.Offset; i < len(docs) && i < tp.Offset+tp.Size; i++ {
		want = append(want, docs[i])
	}
	var got []string
	for _, id := range res.qpr.IDs {
		got = append(got, fmt.Sprintf("%d.%d", id.ID.MID, id.ID.RID))
	}
	var ws []string
	for _, d := range want {
		ws = append(ws, fmt.Sprintf("%d.%d", d.id.MID, d.id.RID))
	}
	if strings.Join(got, " ") != strings.Join(ws, " ") {
		r.Violation("returned IDs are not the top of the merged result over the answering shards "+tp.String(), cse, fmt.Sprintf("%s\ngot %v want %v", detail, got, ws))
		return
	}
	if missing > 0 && !partial {
		r.Violation("an incomplete result is presented as complete "+tp.String(), cse, fmt.Sprintf("%s\n%d of %d %s shards did not answer", detail, missing, shards, tier))
	}
	if missing == 0 && partial {
		r.Violation("a complete result is flagged partial "+tp.String(), cse, detail)
	}
	// documents: i-th document is the i-th ID's document or empty; exactly len(IDs) entries
	if len(res.docs) != len(res.qpr.IDs) {
		r.Violation(fmt.Sprintf("document stream has %s entries than IDs %s", map[bool]string{true: "more", false: "fewer"}[len(res.docs) > len(res.qpr.IDs)], tp.String()), cse, fmt.Sprintf("%s\nids %v docs %d", detail, got, len(res.docs)))
		return
	}
	for i, d := range res.docs {
		if len(d.Data) == 0 {
			// empty only if its store could not deliver it: some fetch call to a replica of that shard deviated
			sh := int(want[i].id.MID) % 10
			excused := false
			for k, v := range assign {
				if v != 0 && strings.HasPrefix(k, fmt.Sprintf("fetch/%s-s%d-", tier, sh)) {
					excused = true
				}
			}
			if !excused {
				r.Violation("a document is empty although its store delivered it "+tp.String(), cse, fmt.Sprintf("%s\nposition %d id %v (shard %d) is empty; no fetch call of that shard failed", detail, i, want[i].id, sh))
				return
			}
			continue
		}
		if string(d.Data) != want[i].body || d.ID != want[i].id {
			r.Violation("a document is delivered at the position of another ID "+tp.String(), cse, fmt.Sprintf("%s\nposition %d id %v carries %q (doc id %v), want %q", detail, i, want[i].id, d.Data, d.ID, want[i].body))
			return
		}
	}
	r.Distinct("outcomes", tp.String()+"|"+strings.Join(got, " ")+fmt.Sprint(partial, len(res.docs)))
	devs := 0
	for _, v := range assign {
		if v != 0 {
			devs++
		}
	}
	if devs > 0 {
		r.Distinct("nontrivial", tp.String()+fmt.Sprint(assign))
	}
}

func trunc(s string, n int) string {
	if len(s) > n {
		return s[:n]
	}
	return s
}

type c16Plan struct {
	tp    rtopo
	bound int
}

type c16Job struct {
	Idx int `json:"idx"`
}

func c16Plans(thorough bool) ([]c16Plan, int) {
	bigBound := 3
	if thorough {
		bigBound = 5
	}
	var plans []c16Plan
	for hs := 1; hs <= 3; hs++ {
		for hr := 1; hr <= 3; hr++ {
			for _, cold := range [][2]int{{0, 0}, {1, 1}, {1, 2}, {2, 1}, {2, 2}} {
				for _, os := range [][2]int{{0, 1}, {0, 3}, {1, 3}, {1, 1}} {
					tp := rtopo{hs, hr, cold[0], cold[1], os[0], os[1], (hs+hr+os[0])%2 == 0, (hs*3+hr+cold[0]+os[1])%4 == 0}
					b := bigBound
					if hs*hr <= 2 && cold[0]*cold[1] <= 1 && os[1] == 3 && os[0] == 0 {
						b = -1
					}
					plans = append(plans, c16Plan{tp, b})
				}
			}
		}
	}
	return plans, bigBound
}

// c16Handle explores one plan inside a worker subprocess.
func c16Handle(job json.RawMessage) any {
	var j c16Job
	if err := json.Unmarshal(job, &j); err != nil {
		panic(err)
	}
	r := vlib.NewSubRun("C16")
	plans, _ := c16Plans(r.Thorough())
	p := plans[j.Idx]
	tp := p.tp
	st := vdec.Explore(p.bound, 2_000_000, func() { c16Last = c16Run(tp) }, func(assign map[string]int) bool {
		c16Check(r, tp, assign)
		return !r.Expired()
	})
	r.Note("%s bound=%d executions=%d events=%d capped=%v", tp, p.bound, st.Execs, st.MaxAsked, st.Capped)
	if st.Capped {
		r.Cap(fmt.Sprintf("%s stopped at %d executions", tp, st.Execs))
	}
	r.Add("topologies", 1)
	return r.Export()
}

func TestVerifC16(t *testing.T) {
	r := vlib.NewRun("C16")
	var rc c16Case
	if r.LoadReplay(&rc) {
		if rc.Topo.HotShards == 0 { // an artefact of the proxy-API part of the check
			r.Finish(t, "fault_enumeration", "replay", nil, nil)
			return
		}
		vdec.Run(rc.Assign, func() { c16Last = c16Run(rc.Topo) })
		c16Check(r, rc.Topo, rc.Assign)
		r.Finish(t, "fault_enumeration", "replay", nil, nil)
		return
	}
	plans, bigBound := c16Plans(r.Thorough())
	// the explorer's state is process-global: the plans are sharded over worker subprocesses
	pool := vlib.NewPool("c16", vlib.Workers())
	defer pool.Close()
	vlib.Parallel(len(plans), vlib.Workers(), func(i int) {
		if r.Expired() {
			return
		}
		var exp vlib.Export
		jr, err := pool.Do(c16Job{Idx: i}, &exp, 40*time.Minute)
		switch {
		case err != nil:
			panic(err)
		case jr.Died:
			r.Violation(fmt.Sprintf("proxy search process died %s", plans[i].tp), c16Case{Topo: plans[i].tp}, jr.Stderr)
		case jr.Hung:
			r.Cap(fmt.Sprintf("%s did not finish within the horizon", plans[i].tp))
		default:
			r.Merge(exp)
		}
	})
	r.Sample(c16Case{rtopo{2, 2, 1, 1, 0, 3, false, false}, map[string]int{"search/hot-s0-r0/#1": 1, "fetch/hot-s1-r0/#1": 4}})
	ev := r.Get("evaluations")
	r.Finish(t, "fault_enumeration",
		fmt.Sprintf("topologies hot {1..3}x{1..3} x long-term {none,1x1,1x2,2x1,2x2} x (offset,size) in {(0,1),(0,3),(1,3),(1,1)}, order alternating; each fake shard holds a 3-document corpus and answers Search correctly; environment events: every Search call (ok / error / wants-old-data as status code and as error message / too-many-fractions), every Fetch call (ok / open error / stream breaks after 0 or 1 documents / first document missing / an extra unknown document first / first two documents swapped), every replica shuffle; all assignments for <=2 hot replicas and <=1 long-term replica (offset 0, size 3), at most %d deviations otherwise. Oracle: plain error, or IDs = page of the merged order over exactly the shards with an answering replica of the consulted tier, partial flag iff some shard had none, long-term tier consulted iff a hot store wants old data, stream has exactly len(IDs) entries and the i-th is the i-th ID's document, or empty only if a fetch call to a replica of its shard failed; no panic", bigBound),
		map[string]any{
			"states":                        r.DistinctCount("outcomes"),
			"transitions":                   ev,
			"traces_validated_against_impl": ev,
			"topologies":                    r.Get("topologies"),
		},
		[]string{"fake stores answer Search by sorting their fixed corpus; the query text is not interpreted", "call outcomes are keyed by (replica, n-th call)"})
}
