//go:build verif_proxy

package hproxy

// C20 (proxy part) — whatever happens between the proxy and the stores, a document handed out for a request with
// a fields pipe / field filter is the projection of the stored document. The real search.Ingestor.Search (query
// with a pipe, documents fetched) and search.Ingestor.Documents (Fetch API, field filter) run over scripted
// replicas (shard 0: two replicas, shard 1: one) whose Fetch applies the filter THAT REACHES THEM to the stored
// document. Enumerated exhaustively: for every host the outcome of its first two Fetch calls out of {ok,
// Unavailable, Internal} (3^6 scripts) x 4 filters (none, allow-list, allow-list of an absent field, except) x
// the two paths. Oracle: the request fails, or every non-empty returned document is exactly the projection of the
// document stored under its ID, in the order of the IDs; with no failing call every document is returned.

import (
	"context"
	"encoding/json"
	"fmt"
	"io"
	"reflect"
	"slices"
	"sort"
	"sync"
	"testing"

	"github.com/ozontech/seq-db/disk"
	pb "github.com/ozontech/seq-db/pkg/storeapi"
	"github.com/ozontech/seq-db/proxy/search"
	"github.com/ozontech/seq-db/proxy/stores"
	"github.com/ozontech/seq-db/querytracer"
	"github.com/ozontech/seq-db/seq"
	"github.com/ozontech/seq-db/zzverif/vlib"
	"github.com/ozontech/seq-db/zzverif/vrand"
	"google.golang.org/grpc"
	"google.golang.org/grpc/codes"
	"google.golang.org/grpc/status"
)

type c20pCase struct {
	Script [6]int `json:"pscript"` // outcome of call 1,2 of a1, a2, b1: 0 ok, 1 Unavailable, 2 Internal
	Filter int    `json:"pfilter"`
	Path   string `json:"ppath"`
}

var c20pFilters = []struct {
	pipe string
	ff   search.FetchFieldsFilter
}{
	{"", search.FetchFieldsFilter{}},
	{" | fields level, message", search.FetchFieldsFilter{Fields: []string{"level", "message"}, AllowList: true}},
	{" | fields zz", search.FetchFieldsFilter{Fields: []string{"zz"}, AllowList: true}},
	{" | fields except password, nested", search.FetchFieldsFilter{Fields: []string{"password", "nested"}, AllowList: false}},
}

type c20pDoc struct {
	id    seq.ID
	shard int
	body  string
}

var c20pDocs = []c20pDoc{
	{seq.SimpleID(300), 0, `{"level":"error","message":"disk is full","k8s_pod":"seq-db-0","password":"hunter2"}`},
	{seq.SimpleID(200), 1, `{"level":"info","message":"compaction done","took_ms":15,"password":"qwerty"}`},
	{seq.SimpleID(100), 0, `{"message":"no level here","nested":{"level":"debug","password":"x"}}`},
}

func c20pProject(doc string, fields []string, allow bool) map[string]any {
	var obj map[string]any
	if err := json.Unmarshal([]byte(doc), &obj); err != nil {
		return nil
	}
	if len(fields) == 0 {
		return obj
	}
	for k := range obj {
		if slices.Contains(fields, k) != allow {
			delete(obj, k)
		}
	}
	return obj
}

type c20pStore struct {
	pb.StoreApiClient
	host   string
	shard  int
	script []int
	mu     *sync.Mutex
	calls  *map[string]int
	failed *int
}

func (s *c20pStore) Search(_ context.Context, in *pb.SearchRequest, _ ...grpc.CallOption) (*pb.SearchResponse, error) {
	resp := &pb.SearchResponse{}
	for _, d := range c20pDocs { // descending already
		if d.shard == s.shard {
			resp.IdSources = append(resp.IdSources, &pb.SearchResponse_IdWithHint{Id: &pb.SearchResponse_Id{Mid: uint64(d.id.MID), Rid: uint64(d.id.RID)}, Hint: "f"})
		}
	}
	resp.Total = uint64(len(resp.IdSources))
	return resp, nil
}

type c20pStream struct {
	grpc.ClientStream
	blocks [][]byte
}

func (f *c20pStream) Recv() (*pb.BinaryData, error) {
	if len(f.blocks) == 0 {
		return nil, io.EOF
	}
	b := f.blocks[0]
	f.blocks = f.blocks[1:]
	return &pb.BinaryData{Data: b}, nil
}

func (s *c20pStore) Fetch(_ context.Context, in *pb.FetchRequest, _ ...grpc.CallOption) (pb.StoreApi_FetchClient, error) {
	s.mu.Lock()
	(*s.calls)[s.host]++
	n := (*s.calls)[s.host]
	out := 0
	if n <= len(s.script) {
		out = s.script[n-1]
	}
	if out != 0 {
		*s.failed++
	}
	s.mu.Unlock()
	switch out {
	case 1:
		return nil, status.Error(codes.Unavailable, "connection error: transport is re-connecting")
	case 2:
		return nil, status.Error(codes.Internal, "store failed")
	}
	ids := in.Ids
	if len(in.IdsWithHints) > 0 {
		ids = nil
		for _, id := range in.IdsWithHints {
			ids = append(ids, id.Id)
		}
	}
	st := &c20pStream{}
	for _, idStr := range ids {
		id, err := seq.FromString(idStr)
		if err != nil {
			return nil, err
		}
		var body []byte
		for _, d := range c20pDocs {
			if d.id == id && d.shard == s.shard {
				// the store projects by the filter it RECEIVES
				body, _ = json.Marshal(c20pProject(d.body, in.GetFieldsFilter().GetFields(), in.GetFieldsFilter().GetAllowList()))
			}
		}
		block := disk.PackDocBlock(body, nil)
		block.SetExt1(uint64(id.MID))
		block.SetExt2(uint64(id.RID))
		st.blocks = append(st.blocks, block)
	}
	return st, nil
}

func c20pRun(r *vlib.Run, c c20pCase) {
	r.Add("evaluations", 1)
	var mu sync.Mutex
	calls := map[string]int{}
	failed := 0
	clients := map[string]pb.StoreApiClient{}
	for i, h := range []string{"a1", "a2", "b1"} {
		clients[h] = &c20pStore{host: h, shard: i / 2, script: c.Script[2*i : 2*i+2], mu: &mu, calls: &calls, failed: &failed}
	}
	empty := &stores.Stores{Shards: [][]string{}, Vers: []string{}}
	hot := &stores.Stores{Shards: [][]string{{"a1", "a2"}, {"b1"}}, Vers: []string{"", ""}}
	ing := search.NewIngestor(search.Config{HotStores: hot, HotReadStores: empty, ReadStores: empty, WriteStores: empty}, clients)
	f := c20pFilters[c.Filter]
	sig := fmt.Sprintf("proxy script=%v filter=%q path=%s", c.Script, f.pipe, c.Path)
	var docs []search.StreamingDoc
	var err error
	if p := vlib.Catch(func() {
		var it search.DocsIterator
		if c.Path == "search" {
			sr := &search.SearchRequest{Q: []byte("*" + f.pipe), Size: 10, From: 0, To: 1 << 40, ShouldFetch: true, Order: seq.DocsOrderDesc}
			_, it, _, err = ing.Search(context.Background(), sr, querytracer.New(false, "verif"))
		} else {
			ids := make([]seq.ID, len(c20pDocs))
			for i, d := range c20pDocs {
				ids[i] = d.id
			}
			it, err = ing.Documents(context.Background(), search.FetchRequest{IDs: ids, FieldsFilter: f.ff})
		}
		if err != nil || it == nil {
			return
		}
		for i := 0; i < 50; i++ {
			d, e := it.Next()
			if e != nil {
				break
			}
			docs = append(docs, d)
		}
	}); p != nil {
		r.Violation(sig+": panic", c, fmt.Sprint(p))
		return
	}
	if err != nil {
		r.Distinct("outcomes", "error")
		if failed == 0 {
			r.Violation(sig+": no store call failed but the request failed", c, err.Error())
		}
		return
	}
	delivered := 0
	var order []uint64
	for _, d := range docs {
		order = append(order, uint64(d.ID.MID))
		if d.Empty() {
			continue
		}
		delivered++
		var stored string
		for _, x := range c20pDocs {
			if x.id == d.ID {
				stored = x.body
			}
		}
		var got map[string]any
		if e := json.Unmarshal(d.Data, &got); e != nil {
			r.Violation(sig+": a returned document is not a JSON object", c, fmt.Sprintf("id %s: %q", d.ID, d.Data))
			continue
		}
		if want := c20pProject(stored, f.ff.Fields, f.ff.AllowList); !reflect.DeepEqual(got, want) {
			r.Violation(sig+": a returned document is not the projection of the stored one", c, fmt.Sprintf("id %s\nstored    %s\nreturned  %s\nwant      %s", d.ID, stored, d.Data, vlib.JSON(want)))
		}
	}
	if !sort.SliceIsSorted(order, func(i, j int) bool { return order[i] > order[j] }) {
		r.Violation(sig+": order of the returned documents", c, fmt.Sprint(order))
	}
	if failed == 0 && delivered != len(c20pDocs) {
		r.Violation(sig+": no store call failed but documents are missing", c, fmt.Sprintf("delivered %d of %d", delivered, len(c20pDocs)))
	}
	r.Distinct("outcomes", fmt.Sprintf("delivered=%d", delivered))
	if failed > 0 && c.Filter > 0 {
		r.Distinct("nontrivial", sig)
	}
}

func TestVerifC20Proxy(t *testing.T) {
	r := vlib.NewRun("C20")
	vrand.Quiet.Store(true)
	var rc c20pCase
	if r.LoadReplay(&rc) {
		if rc.Path != "" {
			c20pRun(r, rc)
		}
		r.Finish(t, "model_checking", "replay", nil, nil)
		return
	}
	for code := 0; code < 729; code++ {
		var sc [6]int
		for i, x := 0, code; i < 6; i, x = i+1, x/3 {
			sc[i] = x % 3
		}
		for fi := range c20pFilters {
			for _, p := range []string{"search", "documents"} {
				c20pRun(r, c20pCase{Script: sc, Filter: fi, Path: p})
			}
		}
	}
	r.Sample(c20pCase{Script: [6]int{1, 0, 0, 0, 0, 0}, Filter: 1, Path: "search"})
	ev := r.Get("evaluations")
	r.Finish(t, "model_checking",
		"proxy part of C20: the real search.Ingestor.Search (query with a fields pipe, documents fetched) and search.Ingestor.Documents (field filter) over scripted replicas that project by the filter they receive: all 3^6 scripts of the first two Fetch outcomes per host (ok / Unavailable / Internal) x 4 filters x 2 paths; every returned document must be the projection of the stored one",
		map[string]any{"states": ev, "transitions": ev, "traces_validated_against_impl": ev},
		[]string{"the store-side projection is judged by the main part of the check"})
}
