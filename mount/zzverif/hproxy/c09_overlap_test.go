//go:build verif_proxy

package hproxy

// C09, overlapping bulks — the payload that the replicas accept is the payload of THAT bulk also when another bulk
// passes through the same proxy instance while the first one is still being sent or retried. The real
// bulk.Ingestor (parsing, pooled processors and compressors) sits on the real SeqDBClient over scripted replicas.
// Bulk A is explored like the single bulk of the main scenario (every store call: ok / error), and at every store
// call of A the environment may let a second request B run to completion through the same ingestor (at most once)
// before the call returns. GOMAXPROCS is 1 for the scenario, which makes the reuse of pooled objects deterministic.
// Oracle on the recorded calls (payload bytes are copied on arrival): acknowledged => a hot (and long-term) shard
// all of whose replicas accepted exactly the payload that was first sent for that bulk, for A and for B.

import (
	"bytes"
	"context"
	"errors"
	"fmt"
	"runtime"
	"sort"
	"strings"
	"sync"
	"time"

	"github.com/ozontech/seq-db/network/circuitbreaker"
	pb "github.com/ozontech/seq-db/pkg/storeapi"
	"github.com/ozontech/seq-db/proxy/bulk"
	"github.com/ozontech/seq-db/proxy/stores"
	"github.com/ozontech/seq-db/seq"
	"github.com/ozontech/seq-db/zzverif/vdec"
	"github.com/ozontech/seq-db/zzverif/vlib"
	"github.com/ozontech/seq-db/zzverif/vrand"
	"github.com/ozontech/seq-db/zzverif/vtime"
	"google.golang.org/grpc"
	"google.golang.org/protobuf/types/known/emptypb"
)

type ovKey struct{}

type ovCall struct {
	Bulk, Host string
	N          int
	Outcome    string
	Payload    []byte
}

type ovWorld struct {
	mu    sync.Mutex
	calls []ovCall
	nth   map[string]int
	ing   *bulk.Ingestor
	ranB  bool
	errB  error
}

type ovStore struct {
	pb.StoreApiClient
	host string
	w    *ovWorld
}

type ovMP struct{ m seq.Mapping }

func (p ovMP) GetMapping() seq.Mapping        { return p.m }
func (p ovMP) GetRawMapping() *seq.RawMapping { return seq.NewRawMapping(p.m) }

var ovDocs = map[string][]string{
	"A": {`{"service":"alpha","message":"first bulk document one with a long enough text"}`, `{"service":"alpha","message":"first bulk document two with a long enough text"}`, `{"service":"alpha","message":"first bulk document three"}`},
	"B": {`{"service":"beta","message":"second bulk doc one"}`, `{"service":"beta","message":"second bulk doc two"}`},
}

func ovSend(ing *bulk.Ingestor, name string) error {
	lines := ovDocs[name]
	i := 0
	_, err := ing.ProcessDocuments(context.WithValue(context.Background(), ovKey{}, name), time.Now(), func() ([]byte, error) {
		if i == len(lines) {
			return nil, nil
		}
		i++
		return []byte(lines[i-1]), nil
	})
	return err
}

func (f *ovStore) Bulk(ctx context.Context, in *pb.BulkRequest, _ ...grpc.CallOption) (*emptypb.Empty, error) {
	name, _ := ctx.Value(ovKey{}).(string)
	payload := append(append(append([]byte(fmt.Sprint(in.Count, "|")), in.Docs...), 0xff), in.Metas...) // a copy
	f.w.mu.Lock()
	f.w.nth[name+f.host]++
	n := f.w.nth[name+f.host]
	canOverlap := name == "A" && !f.w.ranB
	f.w.mu.Unlock()
	out := "ok"
	if name == "A" {
		if canOverlap && vdec.Ask(fmt.Sprintf("overlap/%s/#%d", f.host, n), 2) == 1 {
			f.w.mu.Lock()
			again := f.w.ranB
			f.w.ranB = true
			f.w.mu.Unlock()
			if !again {
				err := ovSend(f.w.ing, "B")
				f.w.mu.Lock()
				f.w.errB = err
				f.w.mu.Unlock()
			}
		}
		out = []string{"ok", "error"}[vdec.Ask(fmt.Sprintf("bulk/%s/#%d", f.host, n), 2)]
	}
	f.w.mu.Lock()
	f.w.calls = append(f.w.calls, ovCall{Bulk: name, Host: f.host, N: n, Outcome: out, Payload: payload})
	f.w.mu.Unlock()
	if out == "error" {
		return nil, errors.New("store unavailable")
	}
	return &emptypb.Empty{}, nil
}

var ovLast struct {
	w    *ovWorld
	errA error
}

func runC09Overlap(tp topo) func() {
	return func() {
		w := &ovWorld{nth: map[string]int{}}
		vrand.ResetSeq()
		clients := map[string]pb.StoreApiClient{}
		hot := &stores.Stores{Shards: hosts("hot", tp.HotShards, tp.HotReplicas)}
		cold := &stores.Stores{Shards: hosts("cold", tp.ColdShards, tp.ColdReplicas)}
		for _, sh := range append(append([][]string{}, hot.Shards...), cold.Shards...) {
			for _, h := range sh {
				clients[h] = &ovStore{host: h, w: w}
			}
		}
		for tier, n := range map[string]int{"bulk_hot": tp.HotShards, "bulk_write": tp.ColdShards} { // all breakers closed
			for s := 0; s < n; s++ {
				circuitbreaker.New(fmt.Sprintf("%s-shard-%d", tier, s), breakerCfg).CloseCircuit()
			}
		}
		vtime.SleepHook = func(time.Duration) {}
		vrand.Quiet.Store(true)
		ing := bulk.NewIngestor(bulk.IngestorConfig{MaxInflightBulks: 4, AllowedTimeDrift: time.Hour, FutureAllowedTimeDrift: time.Hour,
			MappingProvider: ovMP{seq.Mapping{"service": seq.NewSingleType(seq.TokenizerTypeKeyword, "", 0), "message": seq.NewSingleType(seq.TokenizerTypeText, "", 0)}},
			MaxTokenSize:    72, MaxDocumentSize: 1 << 16, DocsZSTDCompressLevel: 1, MetasZSTDCompressLevel: 1},
			bulk.NewSeqDBClient(hot, cold, breakerCfg, clients))
		w.ing = ing
		ovLast.w = w
		ovLast.errA = ovSend(ing, "A")
		ing.Stop()
		vrand.Quiet.Store(false)
		vtime.SleepHook = nil
	}
}

func c09OverlapCheck(r *vlib.Run, tp topo, assign map[string]int) {
	w, errA := ovLast.w, ovLast.errA
	r.Add("evaluations", 1)
	r.Add("overlap_evaluations", 1)
	cse := c09Case{Topo: tp, Assign: assign, Overlap: true}
	var log []string
	ref := map[string][]byte{}
	okBy := map[string]map[string]bool{"A": {}, "B": {}}
	for _, c := range w.calls {
		log = append(log, fmt.Sprintf("%s:%s#%d=%s", c.Bulk, c.Host, c.N, c.Outcome))
		if ref[c.Bulk] == nil {
			ref[c.Bulk] = c.Payload
		}
		if c.Outcome == "ok" && bytes.Equal(c.Payload, ref[c.Bulk]) {
			okBy[c.Bulk][c.Host] = true
		}
	}
	detail := fmt.Sprintf("assignment %v\ncalls in arrival order %v\nA returned %v, B returned %v (B ran: %v)", assign, log, errA, w.errB, w.ranB)
	full := func(b, tier string, shards, replicas int) bool {
		if shards == 0 {
			return true
		}
		for s := 0; s < shards; s++ {
			all := true
			for rp := 0; rp < replicas; rp++ {
				if !okBy[b][fmt.Sprintf("%s-s%d-r%d", tier, s, rp)] {
					all = false
				}
			}
			if all {
				return true
			}
		}
		return false
	}
	judge := func(b string, err error) {
		if err != nil {
			return
		}
		if !full(b, "hot", tp.HotShards, tp.HotReplicas) {
			r.Violation(fmt.Sprintf("%s overlapping bulks: bulk %s acknowledged without a hot shard all of whose replicas accepted exactly its payload", tp, b), cse, detail)
		}
		if !full(b, "cold", tp.ColdShards, tp.ColdReplicas) {
			r.Violation(fmt.Sprintf("%s overlapping bulks: bulk %s acknowledged without a long-term shard all of whose replicas accepted exactly its payload", tp, b), cse, detail)
		}
	}
	judge("A", errA)
	if w.ranB {
		judge("B", w.errB)
		if w.errB != nil {
			r.Violation(fmt.Sprintf("%s overlapping bulks: the second bulk meets healthy stores but fails", tp), cse, detail)
		}
		if bytes.Equal(ref["A"], ref["B"]) {
			panic("harness: the two bulks have the same payload")
		}
		r.Add("overlapped", 1)
	}
	devs := 0
	for k, v := range assign {
		if v != 0 && !strings.HasPrefix(k, "overlap/") {
			devs++
		}
	}
	if devs == 0 && errA != nil {
		r.Violation(fmt.Sprintf("%s overlapping bulks: bulk A failed although every call succeeded", tp), cse, detail)
	}
	sort.Strings(log)
	r.Distinct("outcomes", "overlap|"+tp.String()+"|"+fmt.Sprint(errA == nil)+"|"+strings.Join(log, " "))
	if w.ranB {
		r.Distinct("nontrivial", "overlap|"+tp.String()+"|"+fmt.Sprint(assign))
	}
}

var c09OverlapTopos = []topo{{1, 2, 0, 0}, {2, 2, 0, 0}, {1, 2, 1, 1}, {1, 1, 1, 2}, {1, 3, 0, 0}}

func c09OverlapBound(thorough bool) int {
	if thorough {
		return 6
	}
	return 4
}

// c09HandleOverlap explores one overlap topology inside a worker subprocess.
func c09HandleOverlap(r *vlib.Run, idx int) {
	tp := c09OverlapTopos[idx]
	old := runtime.GOMAXPROCS(1)
	defer runtime.GOMAXPROCS(old)
	st := vdec.Explore(c09OverlapBound(r.Thorough()), 3_000_000, runC09Overlap(tp), func(assign map[string]int) bool {
		c09OverlapCheck(r, tp, assign)
		return !r.Expired()
	})
	r.Note("overlap %s bound=%d executions=%d max_events=%d capped=%v", tp, st.Bound, st.Execs, st.MaxAsked, st.Capped)
	if st.Capped {
		r.Cap(fmt.Sprintf("overlap %s stopped at %d executions", tp, st.Execs))
	}
}
