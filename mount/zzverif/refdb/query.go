package refdb

import (
	"sort"
	"strings"
)

// ID mirrors seq.ID without importing it (the model is independent of seq-db code).
type ID struct {
	MID uint64
	RID uint64
}

func IDLess(a, b ID) bool {
	if a.MID != b.MID {
		return a.MID < b.MID
	}
	return a.RID < b.RID
}

// Tok is an indexed (field,value) pair.
type Tok struct{ F, V string }

// Doc is a stored document with the tokens it was indexed under.
// Nested: extra token sets indexed under the same ID (nested index); a doc matches if its main set
// or any nested set matches (each set is a separate posting entry under the same ID).
type Doc struct {
	ID     ID
	Body   string
	Toks   []Tok
	Nested [][]Tok
}

type Query interface {
	Render() string
	matchToks(t []Tok) bool
}

type All struct{}
type Lit struct{ Field, Pattern string } // glob pattern, '*' = wildcard
type Rng struct{ R Range }
type In struct {
	Field    string
	Patterns []string
}
type And struct{ L, R Query }
type Or struct{ L, R Query }
type Not struct{ X Query }

func anyTok(t []Tok, field string, pred func(v string) bool) bool {
	for _, x := range t {
		if x.F == field && pred(x.V) {
			return true
		}
	}
	return false
}

func (All) Render() string          { return "*" }
func (All) matchToks(t []Tok) bool  { return true }
func (q Lit) Render() string        { return q.Field + ":" + QuotePattern(q.Pattern) }
func (q Lit) matchToks(t []Tok) bool {
	return anyTok(t, q.Field, func(v string) bool { return Glob(q.Pattern, v) })
}
func (q Rng) Render() string { return q.R.Render() }
func (q Rng) matchToks(t []Tok) bool {
	return anyTok(t, q.R.Field, func(v string) bool { return MatchRange(q.R, v) })
}
func (q In) Render() string {
	var p []string
	for _, x := range q.Patterns {
		p = append(p, QuotePattern(x))
	}
	return q.Field + ":in(" + strings.Join(p, ", ") + ")"
}
func (q In) matchToks(t []Tok) bool {
	for _, p := range q.Patterns {
		if anyTok(t, q.Field, func(v string) bool { return Glob(p, v) }) {
			return true
		}
	}
	return false
}
func (q And) Render() string         { return "(" + q.L.Render() + " and " + q.R.Render() + ")" }
func (q And) matchToks(t []Tok) bool { return q.L.matchToks(t) && q.R.matchToks(t) }
func (q Or) Render() string          { return "(" + q.L.Render() + " or " + q.R.Render() + ")" }
func (q Or) matchToks(t []Tok) bool  { return q.L.matchToks(t) || q.R.matchToks(t) }
func (q Not) Render() string         { return "(not " + q.X.Render() + ")" }
func (q Not) matchToks(t []Tok) bool { return !q.X.matchToks(t) }

// Match: the document matches when its main token set or any nested token set satisfies q.
func Match(q Query, d *Doc) bool {
	if q.matchToks(d.Toks) {
		return true
	}
	for _, n := range d.Nested {
		if q.matchToks(n) {
			return true
		}
	}
	return false
}

// Matching returns the distinct matching documents inside [from,to], sorted ascending by ID.
func Matching(docs []Doc, q Query, from, to uint64) []Doc {
	seen := map[ID]bool{}
	var res []Doc
	for i := range docs {
		d := &docs[i]
		if d.ID.MID < from || d.ID.MID > to || seen[d.ID] {
			continue
		}
		if Match(q, d) {
			seen[d.ID] = true
			res = append(res, *d)
		}
	}
	sort.Slice(res, func(i, j int) bool { return IDLess(res[i].ID, res[j].ID) })
	return res
}

// Search: matching docs strictly ordered by (MID,RID) in the requested direction, no duplicates,
// cut to limit; total = number of matching documents.
func Search(docs []Doc, q Query, from, to uint64, asc bool, limit int) (ids []ID, total int) {
	m := Matching(docs, q, from, to)
	total = len(m)
	if !asc {
		for i, j := 0, len(m)-1; i < j; i, j = i+1, j-1 {
			m[i], m[j] = m[j], m[i]
		}
	}
	for i := 0; i < len(m) && i < limit; i++ {
		ids = append(ids, m[i].ID)
	}
	return ids, total
}

// Histogram: bucket start (mid - mid%interval) -> number of matching documents.
func Histogram(docs []Doc, q Query, from, to uint64, interval uint64) map[uint64]uint64 {
	h := map[uint64]uint64{}
	for _, d := range Matching(docs, q, from, to) {
		h[d.ID.MID-d.ID.MID%interval]++
	}
	return h
}

// Dedup keeps the first occurrence of each ID (re-delivered documents are stored once).
func Dedup(docs []Doc) []Doc {
	seen := map[ID]bool{}
	var res []Doc
	for _, d := range docs {
		if !seen[d.ID] {
			seen[d.ID] = true
			res = append(res, d)
		}
	}
	return res
}
