package refdb

import (
	"fmt"
	"math"
	"sort"
	"strconv"
	"strings"
)

// AggSpec describes one aggregation over the matching documents.
// Func: count | unique | sum | min | max | avg | quantile.
type AggSpec struct {
	Func      string    `json:"func"`
	Field     string    `json:"field,omitempty"`
	GroupBy   string    `json:"group_by,omitempty"`
	Interval  uint64    `json:"interval,omitempty"`
	Quantiles []float64 `json:"quantiles,omitempty"`
}

type AggBucket struct {
	Name      string
	MID       uint64
	Value     float64
	Quantiles []float64
	NotExists int64
}

type AggResult struct {
	Buckets   []AggBucket
	NotExists int64
}

func single(d *Doc, field string) (string, bool) {
	for _, t := range d.Toks {
		if t.F == field {
			return t.V, true
		}
	}
	return "", false
}

type binKey struct {
	mid  uint64
	name string
}

type binAcc struct {
	vals      []float64
	count     int64
	notExists int64
}

// Aggregate computes the aggregation directly from the matching documents' (single-valued) tokens.
// Conventions read off the store API (not second-guessed):
//   - count: one bucket per (time bin, group value); documents without the group are counted in
//     NotExists and, outside time-series mode, also reported as a legacy "_not_exists" bucket;
//   - unique: one bucket per distinct group value (value 0), no time bins;
//   - field functions without group: one bucket per time bin, NotExists per bin = documents without the field;
//   - field functions with group: documents with both feed bucket (bin, group); group-only documents are
//     counted in NotExists of bucket (0, group); field-only documents in the result-level NotExists;
//     documents with neither are ignored;
//   - in time-series mode (interval > 0) buckets without a time bin (MID 0) are not reported.
func Aggregate(matching []Doc, s AggSpec) AggResult {
	acc := map[binKey]*binAcc{}
	get := func(k binKey) *binAcc {
		a := acc[k]
		if a == nil {
			a = &binAcc{}
			acc[k] = a
		}
		return a
	}
	bin := func(mid uint64) uint64 {
		if s.Interval == 0 {
			return 0
		}
		return mid - mid%s.Interval
	}
	var res AggResult
	for i := range matching {
		d := &matching[i]
		switch s.Func {
		case "count":
			if g, ok := single(d, s.GroupBy); ok {
				get(binKey{bin(d.ID.MID), g}).count++
			} else {
				res.NotExists++
			}
		case "unique":
			if g, ok := single(d, s.GroupBy); ok {
				get(binKey{0, g})
			} else {
				res.NotExists++
			}
		default:
			v, hasF := single(d, s.Field)
			if s.GroupBy == "" {
				a := get(binKey{bin(d.ID.MID), ""})
				if !hasF {
					a.notExists++
					continue
				}
				f, err := strconv.ParseFloat(v, 64)
				if err != nil {
					panic("refdb: non-numeric field value " + v)
				}
				a.vals = append(a.vals, f)
				continue
			}
			g, hasG := single(d, s.GroupBy)
			switch {
			case !hasF && !hasG:
			case !hasF:
				get(binKey{0, g}).notExists++
			case !hasG:
				res.NotExists++
			default:
				f, err := strconv.ParseFloat(v, 64)
				if err != nil {
					panic("refdb: non-numeric field value " + v)
				}
				a := get(binKey{bin(d.ID.MID), g})
				a.vals = append(a.vals, f)
			}
		}
	}
	if s.Func == "count" && res.NotExists > 0 {
		get(binKey{0, "_not_exists"}).count = res.NotExists
	}
	for k, a := range acc {
		if s.Interval > 0 && k.mid == 0 {
			continue
		}
		b := AggBucket{Name: k.name, MID: k.mid, NotExists: a.notExists}
		sort.Float64s(a.vals)
		n := len(a.vals)
		sum := 0.0
		for _, v := range a.vals {
			sum += v
		}
		switch s.Func {
		case "count":
			b.Value = float64(a.count)
		case "unique":
			b.Value = 0
		case "sum":
			b.Value = sum
		case "min":
			if n > 0 {
				b.Value = a.vals[0]
			}
		case "max":
			if n > 0 {
				b.Value = a.vals[n-1]
			}
		case "avg":
			if n > 0 {
				b.Value = sum / float64(n)
			}
		case "quantile":
			for _, q := range s.Quantiles {
				if n == 0 {
					b.Quantiles = append(b.Quantiles, math.NaN())
					continue
				}
				b.Quantiles = append(b.Quantiles, a.vals[int(float64(n-1)*q+0.5)])
			}
			b.Value = b.Quantiles[0]
		}
		if n == 0 && s.Func != "count" && s.Func != "unique" {
			b.Value = math.NaN()
		}
		res.Buckets = append(res.Buckets, b)
	}
	return res
}

func fnum(f float64) string {
	if math.IsNaN(f) {
		return "NaN"
	}
	return strconv.FormatFloat(f, 'g', -1, 64)
}

// Canon renders a result independent of bucket order.
func (r AggResult) Canon() string {
	var parts []string
	for _, b := range r.Buckets {
		var qs []string
		for _, q := range b.Quantiles {
			qs = append(qs, fnum(q))
		}
		parts = append(parts, fmt.Sprintf("(%d|%s v=%s q=[%s] ne=%d)", b.MID, b.Name, fnum(b.Value), strings.Join(qs, ","), b.NotExists))
	}
	sort.Strings(parts)
	return fmt.Sprintf("NE=%d %s", r.NotExists, strings.Join(parts, " "))
}
