// Package refdb is the deliberately boring reference model used as oracle by the /verif
// harnesses: documents as a slice, a recursive glob, explicit range rules, a query evaluator,
// search/histogram/aggregation by plain loops. It shares no code with the parser, the eval
// tree, the merge nodes or the matchers of seq-db.
package refdb

import (
	"fmt"
	"strconv"
	"strings"
)

// Glob reports whether s matches pattern p where '*' matches any (possibly empty) byte sequence.
func Glob(p, s string) bool {
	if p == "" {
		return s == ""
	}
	if p[0] == '*' {
		for i := 0; i <= len(s); i++ {
			if Glob(p[1:], s[i:]) {
				return true
			}
		}
		return false
	}
	return s != "" && s[0] == p[0] && Glob(p[1:], s[1:])
}

// ParseNumber accepts [+-]? (digits [. digits*]? | . digits) ([eE][+-]?digits)? and nothing else
// (no inf, nan, hex, underscores).
func ParseNumber(s string) (float64, bool) {
	i := 0
	n := len(s)
	if i < n && (s[i] == '+' || s[i] == '-') {
		i++
	}
	digits := 0
	for i < n && s[i] >= '0' && s[i] <= '9' {
		i++
		digits++
	}
	if i < n && s[i] == '.' {
		i++
		for i < n && s[i] >= '0' && s[i] <= '9' {
			i++
			digits++
		}
	}
	if digits == 0 {
		return 0, false
	}
	if i < n && (s[i] == 'e' || s[i] == 'E') {
		i++
		if i < n && (s[i] == '+' || s[i] == '-') {
			i++
		}
		ed := 0
		for i < n && s[i] >= '0' && s[i] <= '9' {
			i++
			ed++
		}
		if ed == 0 {
			return 0, false
		}
	}
	if i != n {
		return 0, false
	}
	v, err := strconv.ParseFloat(s, 64)
	if err != nil {
		return 0, false
	}
	return v, true
}

// Range is a range filter; an unbounded end has *Unb set (rendered as '*').
type Range struct {
	Field            string
	From, To         string
	FromUnb, ToUnb   bool
	IncFrom, IncTo   bool
}

// MatchRange: numeric comparison when every given end is a number (tokens that are not numbers
// then never match), string comparison otherwise; open/closed/unbounded ends honoured.
func MatchRange(r Range, tok string) bool {
	numeric := true
	var lo, hi float64
	if !r.FromUnb {
		v, ok := ParseNumber(r.From)
		if !ok {
			numeric = false
		}
		lo = v
	}
	if !r.ToUnb {
		v, ok := ParseNumber(r.To)
		if !ok {
			numeric = false
		}
		hi = v
	}
	if numeric {
		v, ok := ParseNumber(tok)
		if !ok {
			return false
		}
		if !r.FromUnb {
			if r.IncFrom && !(lo <= v) || !r.IncFrom && !(lo < v) {
				return false
			}
		}
		if !r.ToUnb {
			if r.IncTo && !(v <= hi) || !r.IncTo && !(v < hi) {
				return false
			}
		}
		return true
	}
	if !r.FromUnb {
		if r.IncFrom && !(r.From <= tok) || !r.IncFrom && !(r.From < tok) {
			return false
		}
	}
	if !r.ToUnb {
		if r.IncTo && !(tok <= r.To) || !r.IncTo && !(tok < r.To) {
			return false
		}
	}
	return true
}

func renderEnd(s string, unb bool) string {
	if unb {
		return "*"
	}
	return Quote(s)
}

// Quote renders a literal string as a SeqQL double-quoted string with '*' escaped (no wildcard).
func Quote(s string) string {
	var b strings.Builder
	b.WriteByte('"')
	for i := 0; i < len(s); i++ {
		c := s[i]
		switch c {
		case '"', '\\', '*':
			b.WriteByte('\\')
			b.WriteByte(c)
		default:
			b.WriteByte(c)
		}
	}
	b.WriteByte('"')
	return b.String()
}

// QuotePattern renders a glob pattern: '*' stays a wildcard.
func QuotePattern(p string) string {
	var b strings.Builder
	b.WriteByte('"')
	for i := 0; i < len(p); i++ {
		c := p[i]
		switch c {
		case '"', '\\':
			b.WriteByte('\\')
			b.WriteByte(c)
		default:
			b.WriteByte(c)
		}
	}
	b.WriteByte('"')
	return b.String()
}

func (r Range) Render() string {
	lb, rb := "(", ")"
	if r.IncFrom {
		lb = "["
	}
	if r.IncTo {
		rb = "]"
	}
	return r.Field + ":" + lb + renderEnd(r.From, r.FromUnb) + ", " + renderEnd(r.To, r.ToUnb) + rb
}

// ParseRangeQuery parses the restricted form produced by the C13 harness:
// f:[x, y) with x,y in {*, "", bare word}.
func ParseRangeQuery(q string) (Range, error) {
	var r Range
	i := strings.IndexByte(q, ':')
	if i < 0 {
		return r, fmt.Errorf("no colon")
	}
	r.Field = q[:i]
	rest := q[i+1:]
	if len(rest) < 2 {
		return r, fmt.Errorf("short")
	}
	r.IncFrom = rest[0] == '['
	r.IncTo = rest[len(rest)-1] == ']'
	parts := strings.SplitN(rest[1:len(rest)-1], ", ", 2)
	if len(parts) != 2 {
		return r, fmt.Errorf("no comma")
	}
	end := func(s string) (string, bool) {
		if s == "*" {
			return "", true
		}
		if s == `""` {
			return "", false
		}
		return s, false
	}
	r.From, r.FromUnb = end(parts[0])
	r.To, r.ToUnb = end(parts[1])
	return r, nil
}

// RangeMatchQuery evaluates a restricted range query text on a token.
func RangeMatchQuery(q, tok string) bool {
	r, err := ParseRangeQuery(q)
	if err != nil {
		panic(err)
	}
	return MatchRange(r, tok)
}
