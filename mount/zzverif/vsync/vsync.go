// Package vsync mirrors the subset of package sync used by cache, frac and fracmanager (mounted by the
// `sched` overlay: import sync "…/zzverif/vsync"). For goroutines registered with vsched every
// operation is a scheduling point and blocking is expressed as "disabled while cond"; unregistered
// goroutines get plain spin/yield semantics on the same state, so both kinds interoperate.
package vsync

import (
	"runtime"
	"sync"

	"github.com/ozontech/seq-db/zzverif/vsched"
)

type Locker = sync.Locker

// ---- Mutex ----

type Mutex struct {
	g    sync.Mutex
	held bool
}

func (m *Mutex) try() bool {
	m.g.Lock()
	defer m.g.Unlock()
	if m.held {
		return false
	}
	m.held = true
	return true
}

func (m *Mutex) isHeld() bool {
	m.g.Lock()
	defer m.g.Unlock()
	return m.held
}

func (m *Mutex) Lock() {
	t := vsched.Cur()
	if t == nil {
		for !m.try() {
			runtime.Gosched()
		}
		return
	}
	vsched.Yield("lock")
	for !m.try() {
		vsched.Block(t, m.isHeld, "lock-wait")
	}
}

func (m *Mutex) TryLock() bool {
	vsched.Yield("trylock")
	return m.try()
}

func (m *Mutex) Unlock() {
	m.g.Lock()
	if !m.held {
		m.g.Unlock()
		panic("vsync: unlock of unlocked mutex")
	}
	m.held = false
	m.g.Unlock()
}

// ---- RWMutex (writer preference, as sync.RWMutex: a waiting writer blocks new readers) ----

type RWMutex struct {
	g       sync.Mutex
	writer  bool
	readers int
	waiting int // writers waiting
}

func (r *RWMutex) tryR() bool {
	r.g.Lock()
	defer r.g.Unlock()
	if r.writer || r.waiting > 0 {
		return false
	}
	r.readers++
	return true
}

func (r *RWMutex) tryW() bool {
	r.g.Lock()
	defer r.g.Unlock()
	if r.writer || r.readers > 0 {
		return false
	}
	r.writer = true
	return true
}

func (r *RWMutex) rBlocked() bool {
	r.g.Lock()
	defer r.g.Unlock()
	return r.writer || r.waiting > 0
}

func (r *RWMutex) wBlocked() bool {
	r.g.Lock()
	defer r.g.Unlock()
	return r.writer || r.readers > 0
}

func (r *RWMutex) RLock() {
	t := vsched.Cur()
	if t == nil {
		for !r.tryR() {
			runtime.Gosched()
		}
		return
	}
	vsched.Yield("rlock")
	for !r.tryR() {
		vsched.Block(t, r.rBlocked, "rlock-wait")
	}
}

func (r *RWMutex) TryRLock() bool {
	vsched.Yield("tryrlock")
	return r.tryR()
}

func (r *RWMutex) RUnlock() {
	r.g.Lock()
	if r.readers <= 0 {
		r.g.Unlock()
		panic("vsync: RUnlock of unlocked RWMutex")
	}
	r.readers--
	r.g.Unlock()
}

func (r *RWMutex) acquireW() bool {
	r.g.Lock()
	defer r.g.Unlock()
	if !r.writer && r.readers == 0 {
		r.writer = true
		r.waiting--
		return true
	}
	return false
}

func (r *RWMutex) Lock() {
	t := vsched.Cur()
	if t != nil {
		vsched.Yield("wlock")
	}
	if r.tryW() {
		return
	}
	r.g.Lock()
	r.waiting++
	r.g.Unlock()
	for !r.acquireW() {
		if t == nil {
			runtime.Gosched()
		} else {
			vsched.Block(t, r.wBlocked, "wlock-wait")
		}
	}
}

func (r *RWMutex) TryLock() bool {
	vsched.Yield("trywlock")
	return r.tryW()
}

func (r *RWMutex) Unlock() {
	r.g.Lock()
	if !r.writer {
		r.g.Unlock()
		panic("vsync: Unlock of unlocked RWMutex")
	}
	r.writer = false
	r.g.Unlock()
}

func (r *RWMutex) RLocker() Locker { return (*rlocker)(r) }

type rlocker RWMutex

func (r *rlocker) Lock()   { (*RWMutex)(r).RLock() }
func (r *rlocker) Unlock() { (*RWMutex)(r).RUnlock() }

// ---- WaitGroup ----

type WaitGroup struct {
	g sync.Mutex
	n int
}

func (w *WaitGroup) Add(d int) {
	vsched.Yield("wg-add")
	w.g.Lock()
	w.n += d
	neg := w.n < 0
	w.g.Unlock()
	if neg {
		panic("vsync: negative WaitGroup counter")
	}
}

func (w *WaitGroup) Done() { w.Add(-1) }

func (w *WaitGroup) pending() bool {
	w.g.Lock()
	defer w.g.Unlock()
	return w.n > 0
}

func (w *WaitGroup) Wait() {
	t := vsched.Cur()
	if t == nil {
		for w.pending() {
			runtime.Gosched()
		}
		return
	}
	vsched.Yield("wg-wait")
	for w.pending() {
		vsched.Block(t, w.pending, "wg-wait-blocked")
	}
}

// ---- Once ----

type Once struct {
	m    Mutex
	done bool
}

func (o *Once) Do(f func()) {
	o.m.Lock()
	defer o.m.Unlock()
	if !o.done {
		defer func() { o.done = true }()
		f()
	}
}

// ---- Pool: deterministic LIFO free list (keeps buffer reuse, removes per-P randomness) ----

type Pool struct {
	New func() any
	g   sync.Mutex
	s   []any
	reg bool
}

// every Pool that ever held an object, so that a harness can start each execution with empty pools
// (ResetPools): what a Get returns is then a function of the schedule of this execution alone
var (
	poolsMu  sync.Mutex
	allPools []*Pool
)

// ResetPools empties every pool. Call between executions, never while controlled threads run.
func ResetPools() {
	poolsMu.Lock()
	defer poolsMu.Unlock()
	for _, p := range allPools {
		p.g.Lock()
		clear(p.s)
		p.s = p.s[:0]
		p.g.Unlock()
	}
}

func (p *Pool) Get() any {
	p.g.Lock()
	if n := len(p.s); n > 0 {
		x := p.s[n-1]
		p.s[n-1] = nil
		p.s = p.s[:n-1]
		p.g.Unlock()
		return x
	}
	p.g.Unlock()
	if p.New != nil {
		return p.New()
	}
	return nil
}

func (p *Pool) Put(x any) {
	p.g.Lock()
	first := !p.reg
	p.reg = true
	p.s = append(p.s, x)
	p.g.Unlock()
	if first {
		poolsMu.Lock()
		allPools = append(allPools, p)
		poolsMu.Unlock()
	}
}
