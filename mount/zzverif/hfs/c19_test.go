//go:build verif_fs

package hfs

// C19 — a finished asynchronous search equals the synchronous one and survives restarts.
// In a child: store data is prepared (1-3 fractions, active/sealed, one corpus with a document present
// in two fractions), an async search is started and polled until done; its result must equal the
// synchronous search with the same parameters over the same fractions. The file operations of the
// async data dir are journaled; for every crash state of that journal (every prefix, torn .tmp files)
// a fresh child restarts on the state: the search must resume and end with that same result (or be
// unknown when the crash precedes the durable request file).

import (
	"context"
	"encoding/json"
	"fmt"
	"math"
	"os"
	"path/filepath"
	"sort"
	"strings"
	"testing"
	"time"

	"github.com/ozontech/seq-db/conf"
	"github.com/ozontech/seq-db/consts"
	"github.com/ozontech/seq-db/frac/processor"
	"github.com/ozontech/seq-db/fracmanager"
	"github.com/ozontech/seq-db/parser"
	pb "github.com/ozontech/seq-db/pkg/storeapi"
	"github.com/ozontech/seq-db/seq"
	"github.com/ozontech/seq-db/storeapi"
	"github.com/ozontech/seq-db/zzverif/refdb"
	"github.com/ozontech/seq-db/zzverif/vcrash"
	"github.com/ozontech/seq-db/zzverif/vfrac"
	"github.com/ozontech/seq-db/zzverif/vlib"
	"github.com/ozontech/seq-db/zzverif/vos"
	"google.golang.org/grpc/metadata"
)

type c19MP struct{}

func (c19MP) GetMapping() seq.Mapping { return vfrac.Mapping }

// documents: index i -> fixed content
func c19Doc(i int) refdb.Doc {
	return refdb.Doc{
		ID:   refdb.ID{MID: uint64(vfrac.BaseMID + i%3), RID: uint64(10 + i)},
		Body: fmt.Sprintf(`{"i":%d}`, i),
		Toks: vfrac.WithExists(c19Toks(i)),
	}
}

// every document has the text word m:x, all but every fourth also m:y (the query m:"x y" means
// m:x AND m:y only when it is parsed with the mapping: its parse depends on the field type)
func c19Toks(i int) []refdb.Tok {
	toks := []refdb.Tok{{F: "k", V: []string{"a", "ab", "b"}[i%3]}, {F: "g", V: fmt.Sprintf("g%d", i%2)}, {F: "v", V: fmt.Sprint(i + 1)}, {F: "m", V: "x"}}
	if i%4 != 3 {
		toks = append(toks, refdb.Tok{F: "m", V: "y"})
	}
	return toks
}

// a corpus = list of fractions, each a list of doc indexes; the last one stays active unless SealLast
type c19Corpus struct {
	Fracs    [][]int `json:"fracs"`
	SealLast bool    `json:"seal_last"`
	// RawGroups: the group-by tokens are byte strings that are not valid UTF-8 ("g\xfe", "g\xff")
	RawGroups bool `json:"raw_groups,omitempty"`
	// HugeValues: the numeric field of every document is 1e308, so a sum over two documents is +Inf
	HugeValues bool `json:"huge_values,omitempty"`
	// Late: the documents are recent and late - three hours (even index) and one hour (odd index) older than Now,
	// so a fraction that holds both kinds gets an occupancy map with a gap once it is sealed
	Late bool  `json:"late,omitempty"`
	Now  int64 `json:"now,omitempty"`
}

type c19Req struct {
	Query string `json:"query"`
	Agg   string `json:"agg,omitempty"` // "", count:g, sum:v:g, quantile:v, unique:g, max:v
	Hist  uint64 `json:"hist,omitempty"`
	Asc   bool   `json:"asc"`
	// From / To: offsets from the smallest document time (0 / 0 = the whole time axis); the documents sit at
	// offsets 0, 1, 2, so range ends coincide with the oldest and the newest document of the fractions
	From int `json:"from,omitempty"`
	To   int `json:"to,omitempty"`
	// AbsFrom / AbsTo: an absolute time range in milliseconds (for the corpus of recent documents)
	AbsFrom int64 `json:"abs_from,omitempty"`
	AbsTo   int64 `json:"abs_to,omitempty"`
}

type c19Job struct {
	Dir     string     `json:"dir"`
	Corpus  *c19Corpus `json:"corpus,omitempty"` // non-nil: prepare the data first (fresh dir)
	Req     c19Req     `json:"req"`
	Start   bool       `json:"start"` // start the async search (else: only resume/poll)
	NoAsync bool       `json:"no_async,omitempty"`
	PollMs  int        `json:"poll_ms,omitempty"`
	// Extra: before the async searcher is (re)started, the fraction that was active is sealed and two new
	// documents are ingested into a NEW fraction: it did not exist when the search was started
	Extra bool `json:"extra,omitempty"`
}

type c19Result struct {
	Err     string   `json:"err,omitempty"`
	Found   bool     `json:"found"`
	Done    bool     `json:"done"`
	Async   string   `json:"async"`
	Sync    string   `json:"sync"`
	Journal []vos.Op `json:"journal"`
}

func c19Wild(f string) *parser.Literal {
	return &parser.Literal{Field: f, Terms: []parser.Term{{Kind: parser.TermSymbol, Data: "*"}}}
}

func c19Agg(name string) ([]processor.AggQuery, []seq.AggregateArgs) {
	switch name {
	case "":
		return nil, nil
	case "count:g":
		return []processor.AggQuery{{Func: seq.AggFuncCount, GroupBy: c19Wild("g")}}, []seq.AggregateArgs{{Func: seq.AggFuncCount}}
	case "unique:g":
		return []processor.AggQuery{{Func: seq.AggFuncUnique, GroupBy: c19Wild("g")}}, []seq.AggregateArgs{{Func: seq.AggFuncUnique}}
	case "sum:v:g":
		return []processor.AggQuery{{Func: seq.AggFuncSum, Field: c19Wild("v"), GroupBy: c19Wild("g")}}, []seq.AggregateArgs{{Func: seq.AggFuncSum}}
	case "max:v":
		return []processor.AggQuery{{Func: seq.AggFuncMax, Field: c19Wild("v"), Interval: 2}}, []seq.AggregateArgs{{Func: seq.AggFuncMax, SkipWithoutTimestamp: true}}
	case "quantile:v":
		return []processor.AggQuery{{Func: seq.AggFuncQuantile, Field: c19Wild("v"), Quantiles: []float64{0.5, 0.9}}}, []seq.AggregateArgs{{Func: seq.AggFuncQuantile, Quantiles: []float64{0.5, 0.9}}}
	}
	panic(name)
}

func c19Canon(q *seq.QPR, args []seq.AggregateArgs) string {
	var b strings.Builder
	b.WriteString("ids=[")
	for _, id := range q.IDs {
		fmt.Fprintf(&b, "%d.%d ", id.ID.MID, id.ID.RID)
	}
	b.WriteString("] hist=[")
	var keys []uint64
	for k, v := range q.Histogram {
		if v != 0 {
			keys = append(keys, uint64(k))
		}
	}
	sort.Slice(keys, func(i, j int) bool { return keys[i] < keys[j] })
	for _, k := range keys {
		fmt.Fprintf(&b, "%d:%d ", k, q.Histogram[seq.MID(k)])
	}
	b.WriteString("] aggs=")
	if len(args) > 0 && len(q.Aggs) == len(args) {
		for _, r := range q.Aggregate(args) {
			var parts []string
			for _, bk := range r.Buckets {
				parts = append(parts, fmt.Sprintf("(%d|%s v=%v q=%v ne=%d)", bk.MID, bk.Name, bk.Value, bk.Quantiles, bk.NotExists))
			}
			sort.Strings(parts)
			fmt.Fprintf(&b, "NE=%d %s;", r.NotExists, strings.Join(parts, " "))
		}
	} else if len(args) > 0 {
		fmt.Fprintf(&b, "MISSING(%d of %d)", len(q.Aggs), len(args))
	}
	return b.String()
}

func c19Handle(raw json.RawMessage) any {
	var job c19Job
	if err := json.Unmarshal(raw, &job); err != nil {
		panic(err)
	}
	conf.SkipFsync = false
	conf.IndexWorkers = 1
	conf.ReaderWorkers = 2
	var res c19Result
	cfg := &fracmanager.Config{DataDir: job.Dir, FracSize: 100 * consts.MB, TotalSize: 1000 * consts.MB, CacheSize: 10 * consts.MB}
	fm := fracmanager.NewFracManager(cfg)
	if err := fm.Load(context.Background()); err != nil {
		res.Err = "load: " + err.Error()
		return res
	}
	if job.Corpus != nil {
		for fi, fr := range job.Corpus.Fracs {
			var docs []refdb.Doc
			for _, i := range fr {
				d := c19Doc(i)
				if job.Corpus.HugeValues {
					for k := range d.Toks {
						if d.Toks[k].F == "v" {
							d.Toks[k].V = "1e308"
						}
					}
				}
				if job.Corpus.Late {
					age := int64(3 * 3600_000)
					if i%2 == 1 {
						age = 3600_000
					}
					d.ID.MID = uint64(job.Corpus.Now - age + int64(i))
				}
				if job.Corpus.RawGroups {
					for k := range d.Toks {
						if d.Toks[k].F == "g" {
							d.Toks[k].V = "g" + string([]byte{0xfe + byte(i%2)})
						}
					}
				}
				docs = append(docs, d)
			}
			d, m := vfrac.BuildBulk(docs, 1)
			if err := fm.Append(context.Background(), d, m); err != nil {
				panic(err)
			}
			fm.WaitIdle()
			if fi < len(job.Corpus.Fracs)-1 || job.Corpus.SealLast {
				fm.SealForcedForTests()
			}
		}
	}
	if job.Extra {
		fm.SealForcedForTests()
		d, m := vfrac.BuildBulk([]refdb.Doc{c19Doc(6), c19Doc(7)}, 1)
		if err := fm.Append(context.Background(), d, m); err != nil {
			panic(err)
		}
		fm.WaitIdle()
	}
	if job.NoAsync {
		return res
	}
	// journal only from here: the async data dir operations (and whatever else the store writes)
	vos.SetRoot(job.Dir)
	aggQ, args := c19Agg(job.Req.Agg)
	order := seq.DocsOrderDesc
	if job.Req.Asc {
		order = seq.DocsOrderAsc
	}
	params := processor.SearchParams{AggQ: aggQ, HistInterval: job.Req.Hist, From: 0, To: seq.MID(vfrac.MaxMID), Limit: math.MaxInt32, WithTotal: false, Order: order}
	if job.Req.From != 0 || job.Req.To != 0 {
		params.From, params.To = seq.MID(vfrac.BaseMID+job.Req.From-1), seq.MID(vfrac.BaseMID+job.Req.To-1)
	}
	if job.Req.AbsTo != 0 {
		params.From, params.To = seq.MID(job.Req.AbsFrom), seq.MID(job.Req.AbsTo)
	}
	as := fracmanager.MustStartAsync(fracmanager.AsyncSearcherConfig{DataDir: filepath.Join(job.Dir, "async_searches"), Parallelism: 1}, c19MP{}, fm)
	const id = "req-1"
	if job.Start {
		if err := as.StartSearch(fracmanager.AsyncSearchRequest{ID: id, Query: job.Req.Query, Params: params, Retention: time.Hour}); err != nil {
			res.Err = "start: " + err.Error()
			return res
		}
		vos.Mark("started")
	}
	// poll until done; the horizon is generous and only ends the run without verdict
	if job.PollMs == 0 {
		job.PollMs = 30000
	}
	deadline := time.Now().Add(time.Duration(job.PollMs) * time.Millisecond)
	for {
		r, ok := as.FetchSearchResult(fracmanager.FetchSearchResultRequest{ID: id})
		res.Found = ok
		if !ok {
			break
		}
		if r.Done {
			res.Done = true
			// take the result again after Done (all partial results are persisted by then)
			r, _ = as.FetchSearchResult(fracmanager.FetchSearchResultRequest{ID: id})
			res.Async = c19Canon(&r.QPR, args)
			break
		}
		if time.Now().After(deadline) {
			break
		}
		time.Sleep(2 * time.Millisecond)
	}
	// synchronous search with the same parameters over the same fractions
	ast, err := parser.ParseSeqQL(job.Req.Query, vfrac.Mapping)
	if err != nil {
		panic(err)
	}
	sp := params
	sp.AST = ast.Root
	searcher := fracmanager.NewSearcher(2, fracmanager.SearcherCfg{FractionsPerIteration: 1})
	qpr, err := searcher.SearchDocs(context.Background(), fm.GetAllFracs(), sp)
	if err != nil {
		res.Err = "sync: " + err.Error()
		return res
	}
	res.Sync = c19Canon(qpr, args)
	res.Journal = vos.Journal()
	vos.SetRoot("")
	return res
}

type c19Case struct {
	Corpus c19Corpus `json:"corpus"`
	Req    c19Req    `json:"req"`
	K      int       `json:"k"` // -1: no crash (plain async vs sync)
	Torn   int       `json:"torn"`
	Extra  bool      `json:"extra,omitempty"` // a new fraction appears between the crash and the restart
	API    bool      `json:"api,omitempty"`   // the store API pass (re-run as a whole)
}

type c19Explorer struct {
	r    *vlib.Run
	pool *vlib.Pool
}

func (e *c19Explorer) run(corp c19Corpus, base vcrash.FS, req c19Req, only *c19Case) {
	dir := vfrac.MkTmp("c19")
	defer os.RemoveAll(dir)
	if err := base.Materialize(dir); err != nil {
		panic(err)
	}
	c0 := c19Case{Corpus: corp, Req: req, K: -1}
	var res c19Result
	jr, err := e.pool.Do(c19Job{Dir: dir, Req: req, Start: true}, &res, 120*time.Second)
	if err != nil {
		panic(err)
	}
	e.r.Add("evaluations", 1)
	sig := fmt.Sprintf("corpus=%s req=%s", vlib.JSON(corp), vlib.JSON(req))
	if jr.Died || jr.Hung || res.Err != "" {
		e.r.Violation("async-run-failed "+sig+" "+normCause(firstCause(jr.Stderr)+res.Err), c0, tailStr(jr.Stderr, 1500)+res.Err)
		return
	}
	if !res.Done {
		e.r.Cap("an async search did not report done within the polling horizon")
		return
	}
	e.r.Distinct("answers", res.Sync)
	if only == nil || only.K < 0 {
		if res.Async != res.Sync {
			e.r.Violation("async-differs-from-sync "+sig, c0, fmt.Sprintf("async %s\nsync  %s", res.Async, res.Sync))
			return
		}
	}
	if corp.RawGroups {
		return // this corpus only compares the finished async answer with the synchronous one
	}
	want := res.Sync
	journal := rebase(res.Journal, dir)
	e.r.Sample(map[string]any{"corpus": corp, "req": req, "journal": journalSummary(journal)})
	// crash states of the journal
	started := false
	_ = started
	vcrash.Enumerate(base, "/ROOT", journal, vcrash.Options{FullTorn: 0, Stride: 41, Borders: []int{1}}, func(cs vcrash.CrashState) bool {
		c := c19Case{Corpus: corp, Req: req, K: cs.K, Torn: cs.Torn}
		if only != nil && (only.K != c.K || only.Torn != c.Torn) {
			return true
		}
		if only == nil && cs.K == 0 {
			return true // nothing happened yet
		}
		wasStarted := false
		for _, m := range cs.Marks {
			if m == "started" {
				wasStarted = true
			}
		}
		d2 := vfrac.MkTmp("c19r")
		defer os.RemoveAll(d2)
		if err := cs.FS.Materialize(d2); err != nil {
			panic(err)
		}
		var r2 c19Result
		j2, err := e.pool.Do(c19Job{Dir: d2, Req: req, Start: false, PollMs: 3000}, &r2, 120*time.Second)
		if err != nil {
			panic(err)
		}
		stuck := false
		if !(j2.Died || j2.Hung || r2.Err != "") && r2.Found && !r2.Done {
			// a search over a handful of documents takes milliseconds; not done after 3 s is confirmed on a
			// fresh copy of the state with a 30 s horizon before it is believed
			d3 := vfrac.MkTmp("c19r")
			cs.FS.Materialize(d3)
			var r3 c19Result
			j3, _ := e.pool.Do(c19Job{Dir: d3, Req: req, Start: false, PollMs: 30000}, &r3, 120*time.Second)
			os.RemoveAll(d3)
			if !(j3.Died || j3.Hung) && r3.Found && !r3.Done {
				stuck = true
			} else {
				r2, j2 = r3, j3
			}
		}
		e.r.Add("evaluations", 1)
		e.r.Add("restarts", 1)
		e.r.Distinct("nontrivial", sig+"|"+cs.FS.Canon())
		s2 := fmt.Sprintf("%s crash-k=%d torn=%d", sig, cs.K, cs.Torn)
		switch {
		case j2.Died || j2.Hung || r2.Err != "":
			e.r.Violation("restart-failed "+sig+" "+normCause(firstCause(j2.Stderr)+r2.Err), c, fmt.Sprintf("%s\nfiles=%v\n%s", s2, cs.FS.Listing(), tailStr(j2.Stderr, 1500)+r2.Err))
		case !r2.Found:
			if wasStarted {
				e.r.Violation("request-lost-after-restart "+sig, c, fmt.Sprintf("%s\nfiles=%v", s2, cs.FS.Listing()))
			}
		case stuck:
			e.r.Violation("resumed-search-never-finishes "+sig, c, fmt.Sprintf("%s\nnot done after 3 s and, on a fresh copy, after 30 s (a search over <=6 documents takes milliseconds)\nfiles=%v", s2, cs.FS.Listing()))
		case !r2.Done:
			e.r.Cap("a resumed async search did not report done within the polling horizon")
		case r2.Async != want:
			e.r.Violation("resumed-result-differs "+sig, c, fmt.Sprintf("%s\nresumed %s\nsync    %s\nfiles=%v", s2, r2.Async, want, cs.FS.Listing()))
		}
		// the same crash state again, but a new fraction with two more matching documents appears before the
		// restart: the resumed search must still end with the answer over the fractions that existed at start
		if wasStarted && (only == nil || only.Extra) && !(j2.Died || j2.Hung) {
			d4 := vfrac.MkTmp("c19r")
			if err := cs.FS.Materialize(d4); err != nil {
				panic(err)
			}
			var r4 c19Result
			j4, err := e.pool.Do(c19Job{Dir: d4, Req: req, Start: false, PollMs: 30000, Extra: true}, &r4, 120*time.Second)
			os.RemoveAll(d4)
			if err != nil {
				panic(err)
			}
			e.r.Add("evaluations", 1)
			e.r.Add("restarts_with_new_fraction", 1)
			cx := c
			cx.Extra = true
			switch {
			case j4.Died || j4.Hung || r4.Err != "":
				e.r.Violation("restart-with-new-fraction-failed "+sig+" "+normCause(firstCause(j4.Stderr)+r4.Err), cx, fmt.Sprintf("%s\nfiles=%v\n%s", s2, cs.FS.Listing(), tailStr(j4.Stderr, 1500)+r4.Err))
			case !r4.Found || !r4.Done:
				e.r.Cap("a resumed async search (new fraction variant) did not report done within the polling horizon")
			case r4.Async != want:
				e.r.Violation("resumed-result-includes-fractions-created-after-start "+sig, cx, fmt.Sprintf("%s\nresumed %s\nsync at start %s\nfiles=%v", s2, r4.Async, want, cs.FS.Listing()))
			}
		}
		return !e.r.Expired()
	})
}

// c19StoreAPI — the store API layer (GrpcV1.StartAsyncSearch / FetchAsyncSearchResult) for every setting of
// --max-search-docs in {default, 0 (= unlimited elsewhere), 2}: a finished asynchronous search lists the same
// IDs as the synchronous Search of the same store.
func c19StoreAPI(r *vlib.Run) {
	dir := vfrac.MkTmp("c19api")
	defer os.RemoveAll(dir)
	vos.SetRoot("")
	st, err := storeapi.NewStore(context.Background(), storeapi.StoreConfig{
		FracManager: fracmanager.Config{DataDir: dir, FracSize: 100 * consts.MB, TotalSize: 1000 * consts.MB, CacheSize: 10 * consts.MB, MaintenanceDelay: time.Hour},
		API:         storeapi.APIConfig{StoreMode: storeapi.StoreModeCold, Search: storeapi.SearchConfig{WorkersCount: 2, FractionsPerIteration: 2}},
	}, c19MP{})
	if err != nil {
		panic(err)
	}
	defer st.Stop()
	client := storeapi.NewClient(st)
	for fi, fr := range [][]int{{0, 1, 2}, {3, 4}} {
		var docs []refdb.Doc
		for _, i := range fr {
			docs = append(docs, c19Doc(i))
		}
		d, m := vfrac.BuildBulk(docs, 1)
		if _, err := client.Bulk(context.Background(), &pb.BulkRequest{Count: int64(len(docs)), Docs: d, Metas: m}); err != nil {
			panic(err)
		}
		st.WaitIdle()
		if fi == 0 {
			st.SealAll()
		}
	}
	old := conf.MaxRequestedDocuments
	defer func() { conf.MaxRequestedDocuments = old }()
	ctx := metadata.NewIncomingContext(context.Background(), metadata.Pairs("use-seq-ql", "true"))
	for n, maxDocs := range []int{old, 0, 2} {
		conf.MaxRequestedDocuments = maxDocs
		for _, q := range []string{"*", `k:"a*"`} {
			r.Add("evaluations", 1)
			r.Add("store_api_searches", 1)
			sig := fmt.Sprintf("store-api max-search-docs=%d q=%s", maxDocs, q)
			c := c19Case{API: true}
			sync, err := client.Search(ctx, &pb.SearchRequest{Query: q, From: 0, To: int64(vfrac.MaxMID), Size: 100, Order: pb.Order_ORDER_DESC})
			if err != nil {
				r.Violation(sig+": sync search error", c, err.Error())
				continue
			}
			id := fmt.Sprintf("00000000-0000-4000-8000-00000000%02d%02d", n, len(q))
			if _, err := client.StartAsyncSearch(ctx, &pb.StartAsyncSearchRequest{SearchId: id, Query: q, From: 0, To: int64(vfrac.MaxMID), Order: pb.Order_ORDER_DESC}); err != nil {
				r.Violation(sig+": start error", c, err.Error())
				continue
			}
			var got *pb.FetchAsyncSearchResultResponse
			deadline := time.Now().Add(30 * time.Second)
			for {
				got, err = client.FetchAsyncSearchResult(ctx, &pb.FetchAsyncSearchResultRequest{SearchId: id, Size: 100})
				if err != nil || got.Done || time.Now().After(deadline) {
					break
				}
				time.Sleep(2 * time.Millisecond)
			}
			switch {
			case err != nil:
				r.Violation(sig+": fetch error", c, err.Error())
			case !got.Done:
				r.Cap("an async search through the store API did not report done within 30 s")
			default:
				ids := func(resp *pb.SearchResponse) string {
					var b strings.Builder
					for _, x := range resp.IdSources {
						fmt.Fprintf(&b, "%d.%d ", x.Id.Mid, x.Id.Rid)
					}
					return b.String()
				}
				if a, s := ids(got.Response), ids(sync); a != s {
					r.Violation(sig+": finished async search lists other IDs than the synchronous search", c, fmt.Sprintf("async [%s]\nsync  [%s]", a, s))
				}
			}
		}
	}
}

func TestVerifC19(t *testing.T) {
	r := vlib.NewRun("C19")
	e := &c19Explorer{r: r, pool: vlib.NewPool("c19", vlib.Workers())}
	defer e.pool.Close()
	prepare := func(c c19Corpus) vcrash.FS {
		dir := vfrac.MkTmp("c19p")
		defer os.RemoveAll(dir)
		var res c19Result
		cc := c
		jr, err := e.pool.Do(c19Job{Dir: dir, Corpus: &cc, NoAsync: true}, &res, 120*time.Second)
		if err != nil || jr.Died || jr.Hung || res.Err != "" {
			panic(fmt.Sprintf("prepare failed: %v %+v %s %s", err, jr.Exit, res.Err, tailStr(jr.Stderr, 800)))
		}
		fs, err := vcrash.ReadDir(dir)
		if err != nil {
			panic(err)
		}
		return fs
	}
	var rc c19Case
	if r.LoadReplay(&rc) {
		if rc.API {
			c19StoreAPI(r)
			r.Finish(t, "fault_enumeration", "replay", nil, nil)
			return
		}
		if len(rc.Corpus.Fracs) == 0 { // a replay artefact of the proxy add-on: nothing to do here
			r.Finish(t, "fault_enumeration", "replay", nil, nil)
			return
		}
		e.run(rc.Corpus, prepare(rc.Corpus), rc.Req, &rc)
		r.Finish(t, "fault_enumeration", "replay", nil, nil)
		return
	}
	corpora := []c19Corpus{
		{Fracs: [][]int{{0, 1, 2}}},
		{Fracs: [][]int{{0, 1}, {2, 3}}},
		{Fracs: [][]int{{0}, {1, 2}, {3}}, SealLast: true},
		{Fracs: [][]int{{3, 1}, {0, 2}, {4, 5}}},
		{Fracs: [][]int{{0, 1}, {1, 2}}}, // document 1 re-delivered into the next fraction
	}
	if r.Thorough() {
		corpora = append(corpora, c19Corpus{Fracs: [][]int{{0, 1, 2, 3}}, SealLast: true}, c19Corpus{Fracs: [][]int{{5}, {4}, {3}}}, c19Corpus{Fracs: [][]int{{0, 2}, {1, 3}}, SealLast: true})
	}
	// group-by over tokens that are not valid UTF-8: one corpus, one request
	rawJobs := []struct {
		c   c19Corpus
		req c19Req
	}{{c19Corpus{Fracs: [][]int{{0, 1}, {2, 3}}, RawGroups: true}, c19Req{Query: "*", Agg: "count:g"}},
		// sums that leave the float64 range: +Inf in the synchronous answer
		{c19Corpus{Fracs: [][]int{{0, 2}, {1, 3}}, HugeValues: true}, c19Req{Query: "*", Agg: "sum:v:g"}},
		{c19Corpus{Fracs: [][]int{{0, 1}, {2, 3}}, HugeValues: true}, c19Req{Query: "*", Agg: "sum:v:g"}}}
	// recent, late documents: the fraction that is active when the search starts holds documents of three hours and
	// of one hour ago; requests into the gap between them, around the old ones, and over everything
	now := time.Now().UnixMilli()
	lateCorpus := c19Corpus{Fracs: [][]int{{0, 1}, {2, 3}}, Late: true, Now: now}
	for _, rg := range [][2]int64{{now - 9000_000, now - 5400_000}, {now - 4*3600_000, now - 2*3600_000}, {0, now}} {
		rawJobs = append(rawJobs, struct {
			c   c19Corpus
			req c19Req
		}{lateCorpus, c19Req{Query: "*", Hist: 0, AbsFrom: rg[0], AbsTo: rg[1]}})
	}
	queries := []string{"*", `k:"a*"`, `(not k:"b")`, `m:"x y"`}
	var reqs []c19Req
	for _, q := range queries {
		for _, asc := range []bool{false, true} {
			reqs = append(reqs, c19Req{Query: q, Asc: asc}, c19Req{Query: q, Asc: asc, Hist: 2})
		}
		// time ranges whose ends are document times (From / To are offset+1): [0,0] [0,1] [1,2] [2,2] [1,1]
		for ri, rg := range [][2]int{{1, 1}, {1, 2}, {2, 3}, {3, 3}, {2, 2}} {
			reqs = append(reqs, c19Req{Query: q, Asc: ri%2 == 0, Hist: uint64(ri % 2 * 2), From: rg[0], To: rg[1]})
		}
		for _, a := range []string{"count:g", "unique:g", "sum:v:g", "max:v", "quantile:v"} {
			reqs = append(reqs, c19Req{Query: q, Agg: a, Hist: uint64(len(a) % 3), Asc: len(a)%2 == 0})
		}
	}
	type job struct {
		c    c19Corpus
		base vcrash.FS
		req  c19Req
	}
	var jobs []job
	for _, c := range corpora {
		base := prepare(c)
		for _, rq := range reqs {
			jobs = append(jobs, job{c, base, rq})
		}
	}
	c19StoreAPI(r)
	for _, rj := range rawJobs {
		jobs = append(jobs, job{rj.c, prepare(rj.c), rj.req})
	}
	vlib.Parallel(len(jobs), vlib.Workers(), func(i int) {
		if r.Expired() {
			return
		}
		e.run(jobs[i].c, jobs[i].base, jobs[i].req, nil)
	})
	ev := r.Get("evaluations")
	r.Finish(t, "fault_enumeration",
		fmt.Sprintf("%d corpora (1-3 fractions, active and sealed) x %d requests (4 queries x {plain both orders, histogram, 5 time ranges whose ends are document times, count/unique/sum/max-with-interval/quantile aggregations}); per request: async result at Done vs synchronous Searcher.SearchDocs with the same parameters (limit MaxInt32, no total); then every prefix of the journal of file operations since the async searcher started (.info / .qpr atomic writes incl. torn .tmp contents at stride 41) is restarted in a fresh child, which must resume to Done with the same result, or not know the request when the crash precedes the return of StartSearch", len(corpora), len(reqs)),
		map[string]any{
			"states":                        r.DistinctCount("nontrivial"),
			"transitions":                   ev,
			"traces_validated_against_impl": ev,
			"distinct_answers":              r.DistinctCount("answers"),
		},
		[]string{"a resumed search that is not done after 3 s is re-run on a fresh copy with a 30 s horizon; only if it is still not done it is reported (such a search takes milliseconds)", "fractions are not deleted between start and restart (retention is outside this property)"})
}
