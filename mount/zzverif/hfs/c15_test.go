//go:build verif_fs

package hfs

// C15 — start-up, retention and deletion are crash-safe and only drop the oldest data.
// Scripts of ingest / seal+rotate / retention (real maintenance through Start/Stop with a small
// TotalSize) / explicit fraction deletion are run in a child under the journaling os shim; every crash
// state of the journal, crossed with .frac-cache variants (as is, any earlier version, missing,
// truncated, garbage), is recovered by the real loader in a child: the store must start, every bulk
// (= fraction) is either completely served or completely gone, a fraction whose deletion has begun on
// disk never reappears, untouched acknowledged fractions are served. On the live store, retention must
// have removed a prefix of the creation order.

import (
	"context"
	"encoding/json"
	"fmt"
	"os"
	"strings"
	"testing"
	"time"

	"github.com/ozontech/seq-db/conf"
	"github.com/ozontech/seq-db/consts"
	"github.com/ozontech/seq-db/fracmanager"
	"github.com/ozontech/seq-db/zzverif/vcrash"
	"github.com/ozontech/seq-db/zzverif/vfrac"
	"github.com/ozontech/seq-db/zzverif/vlib"
	"github.com/ozontech/seq-db/zzverif/vos"
)

type c15Job struct {
	Dir    string   `json:"dir"`
	Script []string `json:"script"` // ingest:<b> | seal | retention:<keepNewest> | suicide:<index>
}

type c15Frac struct {
	Name string `json:"name"`
	Size uint64 `json:"size"`
}

type c15Result struct {
	LoadErr string         `json:"load_err,omitempty"`
	Journal []vos.Op       `json:"journal"`
	Before  []c15Frac      `json:"before"` // fractions (creation order) before retention
	After   []c15Frac      `json:"after"`  // fractions after retention
	Total   uint64         `json:"total_size"`
	Status  []docStatus    `json:"status"`
	BulkIn  map[int]string `json:"bulk_in"` // bulk -> fraction name
}

func c15List(fm *fracmanager.FracManager) []c15Frac {
	var res []c15Frac
	for _, f := range fm.GetAllFracs() {
		in := f.Info()
		res = append(res, c15Frac{Name: in.Name(), Size: in.FullSize()})
	}
	return res
}

func c15Handle(raw json.RawMessage) any {
	var job c15Job
	if err := json.Unmarshal(raw, &job); err != nil {
		panic(err)
	}
	conf.SkipFsync = false
	conf.IndexWorkers = 1
	conf.ReaderWorkers = 2
	vos.SetRoot(job.Dir)
	res := c15Result{BulkIn: map[int]string{}}
	cfg := &fracmanager.Config{DataDir: job.Dir, FracSize: 100 * consts.MB, TotalSize: 1000 * consts.MB, CacheSize: 10 * consts.MB, MaintenanceDelay: time.Hour}
	// TotalSize is fixed at construction: find the retention step up front and compute it lazily below
	fm := fracmanager.NewFracManager(cfg)
	if err := fm.Load(context.Background()); err != nil {
		res.LoadErr = err.Error()
		return res
	}
	for _, st := range job.Script {
		var arg int
		switch {
		case strings.HasPrefix(st, "ingest:"):
			fmt.Sscanf(st, "ingest:%d", &arg)
			d, m := vfrac.BuildBulk(c01Bulk(arg), 1)
			vos.Mark(fmt.Sprintf("start:%d", arg))
			if err := fm.Append(context.Background(), d, m); err != nil {
				panic(err)
			}
			fm.WaitIdle()
			name := fm.Active().Info().Name()
			res.BulkIn[arg] = name
			vos.Mark(fmt.Sprintf("bulk:%d:%s", arg, name))
		case st == "seal":
			fm.SealForcedForTests()
		case strings.HasPrefix(st, "retention:"):
			fmt.Sscanf(st, "retention:%d", &arg)
			res.Before = c15List(fm)
			// budget = size of the newest `arg` fractions (the config is shared by pointer with the manager)
			var budget uint64
			for i := len(res.Before) - 1; i >= 0 && i >= len(res.Before)-arg; i-- {
				budget += res.Before[i].Size
			}
			cfg.TotalSize = budget
			res.Total = budget
			vos.Mark("retention-start")
			fm.Start() // the maintenance loop runs once immediately
			fm.Stop()  // waits for maintenance and for the deletions it started
			vos.Mark("retention-done")
			res.After = c15List(fm)
		case st == "reopen:skipsort", st == "reopen:sort":
			// the store is restarted with the other valid sorted-docs setting: fractions sealed under the previous
			// setting stay on disk and are served and deleted by a process configured differently
			cfg2 := *cfg
			cfg2.Fraction.SkipSortDocs = st == "reopen:skipsort"
			cfg = &cfg2
			fm = fracmanager.NewFracManager(cfg)
			if err := fm.Load(context.Background()); err != nil {
				res.LoadErr = err.Error()
				return res
			}
		case strings.HasPrefix(st, "suicide:"):
			fmt.Sscanf(st, "suicide:%d", &arg)
			fr := fm.GetAllFracs()
			vos.Mark("suicide:" + fr[arg].Info().Name())
			fr[arg].Suicide()
		}
	}
	res.Journal = vos.Journal()
	vos.SetRoot("")
	return res
}

type c15Case struct {
	Script []string `json:"script"`
	K      int      `json:"k"`
	Torn   int      `json:"torn"`
	Cache  string   `json:"cache"` // asis | missing | garbage | trunc:<n> | version:<i>
}

type c15Explorer struct {
	r   *vlib.Run
	run *vlib.Pool
	rec *vlib.Pool
}

func fracOf(path string) string {
	m := reULIDc.FindString(path)
	return m
}

func (e *c15Explorer) script(script []string, only *c15Case) {
	dir := vfrac.MkTmp("c15s")
	defer os.RemoveAll(dir)
	var res c15Result
	jr, err := e.run.Do(c15Job{Dir: dir, Script: script}, &res, 120*time.Second)
	if err != nil {
		panic(err)
	}
	e.r.Add("evaluations", 1)
	// the directory of the run is gone from here on: every crash state is recovered in ANOTHER directory, as after
	// a move of the data directory (absolute paths remembered in .frac-cache point to nothing)
	os.RemoveAll(dir)
	c0 := c15Case{Script: script, K: -1}
	if jr.Died || jr.Hung || res.LoadErr != "" {
		e.r.Violation(fmt.Sprintf("script died script=%v cause=%s", script, normCause(firstCause(jr.Stderr)+res.LoadErr)), c0, tailStr(jr.Stderr, 1500))
		return
	}
	// retention on the live store: what is left is a suffix of the creation order, within budget
	if res.Before != nil {
		keep := len(res.After)
		ok := keep <= len(res.Before)+1
		// After may contain a fresh active fraction appended by rotation; compare names of the old ones
		old := map[string]int{}
		for i, f := range res.Before {
			old[f.Name] = i
		}
		minIdx := len(res.Before)
		var kept []int
		for _, f := range res.After {
			if i, isOld := old[f.Name]; isOld {
				kept = append(kept, i)
				if i < minIdx {
					minIdx = i
				}
			}
		}
		for i := minIdx; i < len(res.Before); i++ { // every fraction newer than the oldest kept one must be kept
			found := false
			for _, k := range kept {
				if k == i {
					found = true
				}
			}
			if !found {
				ok = false
			}
		}
		var sum uint64
		for _, f := range res.After {
			sum += f.Size
		}
		if !ok || sum > res.Total && len(kept) > 0 && minIdx < len(res.Before)-1 {
			e.r.Violation(fmt.Sprintf("retention-not-oldest-first script=%v", script), c0, fmt.Sprintf("before=%v after=%v budget=%d", res.Before, res.After, res.Total))
		}
		e.r.Add("retention_runs", 1)
	}
	journal := rebase(res.Journal, dir)
	e.r.Sample(map[string]any{"script": script, "journal": journalSummary(journal)})
	// .frac-cache versions seen in the journal
	var versions [][]byte
	{
		im := vcrash.NewImage(vcrash.FS{})
		for _, o := range journal {
			im.Apply("/ROOT", o, -1)
			if o.Kind == "rename" && strings.HasSuffix(o.To, consts.FracCacheFileSuffix) {
				versions = append(versions, append([]byte{}, im.Files[consts.FracCacheFileSuffix]...))
			}
		}
	}
	// walk the journal, tracking per fraction whether its deletion has begun
	im := vcrash.NewImage(vcrash.FS{})
	begun := map[string]bool{}
	bulkIn := map[int]string{}
	started := map[int]bool{}
	for k := 0; k <= len(journal); k++ {
		if e.r.Expired() {
			return
		}
		// crash states at k: as is + torn variants of an in-flight write
		states := []struct {
			fs   vcrash.FS
			torn int
		}{{im.Files.Clone(), -1}}
		if k < len(journal) && journal[k].Kind == "write" {
			n := len(journal[k].Data)
			for _, t := range vcrash.TornLengths(n, 0, 37, []int{n / 2}) {
				if t == 0 {
					continue
				}
				c := im.Clone()
				c.Apply("/ROOT", journal[k], t)
				states = append(states, struct {
					fs   vcrash.FS
					torn int
				}{c.Files, t})
			}
		}
		for _, st := range states {
			// .frac-cache variants
			type cv struct {
				name    string
				content []byte
				remove  bool
			}
			vars := []cv{{name: "asis"}, {name: "missing", remove: true}, {name: "garbage", content: []byte("{\"seq-db-")}, {name: "garbage2", content: []byte("null")}}
			cur := st.fs[consts.FracCacheFileSuffix]
			for n := 1; n < len(cur); n += 97 {
				vars = append(vars, cv{name: fmt.Sprintf("trunc:%d", n), content: cur[:n]})
			}
			for i, v := range versions {
				vars = append(vars, cv{name: fmt.Sprintf("version:%d", i), content: v})
			}
			for _, v := range vars {
				c := c15Case{Script: script, K: k, Torn: st.torn, Cache: v.name}
				if only != nil && (only.K != c.K || only.Torn != c.Torn || only.Cache != c.Cache) {
					continue
				}
				fs := st.fs
				if v.name != "asis" {
					fs = st.fs.Clone()
					if v.remove {
						delete(fs, consts.FracCacheFileSuffix)
					} else {
						fs[consts.FracCacheFileSuffix] = v.content
					}
				}
				key := fs.Canon()
				if !e.r.Distinct("nontrivial", fmt.Sprint(script)+"|"+key+"|"+fmt.Sprint(begun)) {
					continue
				}
				e.recover(fs, c, begun, bulkIn, started)
			}
		}
		if k == len(journal) {
			break
		}
		o := journal[k]
		// deletion-begun tracking (before applying the op, the image shows whether an index exists)
		if f := fracOf(o.Path); f != "" {
			switch {
			case o.Kind == "rename" && strings.HasSuffix(o.To, ".del"):
				begun[f] = true
			case o.Kind == "remove" && (strings.HasSuffix(o.Path, consts.MetaFileSuffix) || strings.HasSuffix(o.Path, consts.DocsFileSuffix)):
				if _, hasIndex := im.Files[f+consts.IndexFileSuffix]; !hasIndex {
					begun[f] = true
				}
			}
		}
		if o.Kind == "mark" && strings.HasPrefix(o.Note, "start:") {
			var b int
			fmt.Sscanf(o.Note, "start:%d", &b)
			started[b] = true
		}
		if o.Kind == "mark" && strings.HasPrefix(o.Note, "bulk:") {
			var b int
			var name string
			parts := strings.SplitN(o.Note, ":", 3)
			fmt.Sscanf(parts[1], "%d", &b)
			name = parts[2]
			bulkIn[b] = name
		}
		im.Apply("/ROOT", o, -1)
	}
}

func (e *c15Explorer) recover(fs vcrash.FS, c c15Case, begun map[string]bool, bulkIn map[int]string, started map[int]bool) {
	dir := vfrac.MkTmp("c15r")
	defer os.RemoveAll(dir)
	if err := fs.Materialize(dir); err != nil {
		panic(err)
	}
	var res stageResult
	jr, err := e.rec.Do(stageJob{Dir: dir}, &res, 120*time.Second)
	if err != nil {
		panic(err)
	}
	e.r.Add("evaluations", 1)
	e.r.Add("recoveries", 1)
	desc := fmt.Sprintf("case=%s begun=%v bulks=%v files=%v", vlib.JSON(c), begun, bulkIn, fs.Listing())
	if jr.Died || jr.Hung {
		d2 := vfrac.MkTmp("c15r")
		fs.Materialize(d2)
		var r2 stageResult
		j2, _ := e.rec.Do(stageJob{Dir: d2}, &r2, 120*time.Second)
		os.RemoveAll(d2)
		if j2.Died || j2.Hung {
			e.r.Violation(fmt.Sprintf("store-does-not-come-back cause=%s cache=%s", normCause(firstCause(jr.Stderr)), cacheKind(c.Cache)), c, desc+"\n"+tailStr(jr.Stderr, 1500))
		}
		return
	}
	if res.LoadErr != "" {
		e.r.Violation("load-error "+normCause(res.LoadErr), c, desc+"\n"+res.LoadErr)
		return
	}
	byBulk := map[int][]docStatus{}
	for _, s := range res.Before {
		byBulk[s.Bulk] = append(byBulk[s.Bulk], s)
	}
	for b := 1; b <= c01Universe; b++ {
		ss := byBulk[b]
		nOK, nAbsent := 0, 0
		for _, s := range ss {
			if s.Status == "ok" {
				nOK++
			} else if s.Status == "absent" {
				nAbsent++
			}
		}
		frac, ingested := bulkIn[b]
		kind := ""
		switch {
		case nOK+nAbsent != len(ss):
			kind = "corrupt"
		case nOK != 0 && nAbsent != 0:
			kind = "partially-served-fraction"
		case !ingested && !started[b] && nOK != 0:
			kind = "phantom"
		case ingested && begun[frac] && nOK != 0:
			kind = "deleted-fraction-reappears"
		case ingested && !begun[frac] && nAbsent != 0:
			kind = "untouched-fraction-lost"
		}
		if kind != "" {
			e.r.Violation(fmt.Sprintf("%s cache=%s", kind, cacheKind(c.Cache)), c, fmt.Sprintf("%s\nbulk %d: %s", desc, b, vlib.JSON(ss)))
		}
	}
}

func cacheKind(s string) string {
	if i := strings.IndexByte(s, ':'); i > 0 {
		return s[:i]
	}
	return s
}

func TestVerifC15(t *testing.T) {
	r := vlib.NewRun("C15")
	e := &c15Explorer{r: r, run: vlib.NewPool("c15", vlib.Workers()), rec: vlib.NewPool("c01", vlib.Workers())}
	defer e.run.Close()
	defer e.rec.Close()
	var rc c15Case
	if r.LoadReplay(&rc) {
		e.script(rc.Script, &rc)
		r.Finish(t, "fault_enumeration", "replay", nil, nil)
		return
	}
	scripts := [][]string{
		{"ingest:1", "seal", "ingest:2", "seal", "ingest:3", "retention:2"}, // retention removes the oldest sealed fraction
		{"ingest:1", "seal", "ingest:2", "seal", "ingest:3", "retention:1"}, // ... the two oldest
		{"ingest:1", "seal", "ingest:2", "suicide:1", "suicide:0"},          // deletion of a never-sealed and of a sealed fraction
		{"ingest:1", "ingest:2", "seal", "ingest:3", "seal", "retention:3"}, // nothing to remove; cache rewrite only
		{"ingest:1", "seal", "ingest:2", "retention:1"},
		// a fraction sealed with sorted docs is deleted by a process running with SkipSortDocs, and the reverse
		{"ingest:1", "seal", "reopen:skipsort", "ingest:2", "seal", "ingest:3", "retention:2"},
		{"reopen:skipsort", "ingest:1", "seal", "reopen:sort", "ingest:2", "seal", "ingest:3", "retention:2"},
	}
	if r.Thorough() {
		scripts = append(scripts,
			[]string{"ingest:1", "seal", "ingest:2", "seal", "ingest:3", "seal", "ingest:4", "retention:2"},
			[]string{"ingest:4", "seal", "ingest:3", "seal", "ingest:2", "seal", "ingest:1", "retention:3"},
			[]string{"ingest:1", "seal", "ingest:2", "seal", "suicide:0", "suicide:1", "suicide:2"},
			[]string{"ingest:2", "suicide:0"},
		)
	}
	// retention order on the live store over short op sequences (depth <= 5)
	var seqs [][]string
	for n := 1; n <= 4; n++ {
		for keep := 1; keep <= n; keep++ { // a budget below the size of the fraction being written is a misconfiguration
			var s []string
			for i := 1; i <= n; i++ {
				s = append(s, fmt.Sprintf("ingest:%d", (i-1)%4+1))
				if i < n {
					s = append(s, "seal")
				}
			}
			seqs = append(seqs, append(s, fmt.Sprintf("retention:%d", keep)))
			s2 := append(append([]string{}, s...), "seal")
			seqs = append(seqs, append(s2, fmt.Sprintf("retention:%d", keep)))
		}
	}
	vlib.Parallel(len(scripts), len(scripts), func(i int) { e.script(scripts[i], nil) })
	vlib.Parallel(len(seqs), vlib.Workers(), func(i int) {
		// live-store retention check only (no crash enumeration): run and judge order
		dir := vfrac.MkTmp("c15q")
		defer os.RemoveAll(dir)
		var res c15Result
		jr, _ := e.run.Do(c15Job{Dir: dir, Script: seqs[i]}, &res, 120*time.Second)
		r.Add("evaluations", 1)
		if jr.Died || jr.Hung {
			r.Violation(fmt.Sprintf("retention script died script=%v", seqs[i]), c15Case{Script: seqs[i], K: -1}, tailStr(jr.Stderr, 1200))
			return
		}
		old := map[string]int{}
		for j, f := range res.Before {
			old[f.Name] = j
		}
		minIdx, kept := len(res.Before), map[int]bool{}
		for _, f := range res.After {
			if j, ok := old[f.Name]; ok {
				kept[j] = true
				minIdx = min(minIdx, j)
			}
		}
		for j := minIdx; j < len(res.Before); j++ {
			if !kept[j] {
				r.Violation(fmt.Sprintf("retention-not-oldest-first script=%v", seqs[i]), c15Case{Script: seqs[i], K: -1}, fmt.Sprintf("before=%v after=%v", res.Before, res.After))
			}
		}
		r.Add("retention_runs", 1)
	})
	ev := r.Get("evaluations")
	r.Finish(t, "fault_enumeration",
		fmt.Sprintf("%d scripts of ingest / seal+rotate / retention (real maintenance with a budget equal to the newest k fractions) / explicit deletion of a never-sealed and of a sealed fraction; every prefix of the journal (and torn lengths of .frac-cache temp writes and data writes) x .frac-cache in {as is, missing, 2 garbage forms, truncations every 97 bytes, every earlier version}; recovered by the real loader in a child: starts, each bulk(=fraction) all-or-nothing, deletion-begun fractions never reappear, untouched fractions served; %d further op sequences check on the live store that retention leaves a suffix of the creation order", len(scripts), len(seqs)),
		map[string]any{
			"states":                        r.DistinctCount("nontrivial"),
			"transitions":                   ev,
			"traces_validated_against_impl": ev,
			"retention_runs":                r.Get("retention_runs"),
		},
		[]string{"persistence model: prefixes of the journal with atomic namespace operations (Model A); un-synced data loss is covered by C01/C08", "deletion has begun = a rename to *.del, or a remove of .meta/.docs of a fraction that has no index"})
}
