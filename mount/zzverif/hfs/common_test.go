//go:build verif_fs

package hfs

import "regexp"

var reULIDc = regexp.MustCompile(`seq-db-[0-9A-HJKMNP-TV-Z]{26}`)
var reNumc = regexp.MustCompile(`[0-9]+`)
