//go:build verif_fs

package hfs

// C08 — sealing is all-or-nothing under crashes and I/O errors.
// For every corpus x (SkipSortDocs, KeepMetaFile): (1) every crash state of the seal's file-operation
// journal (Model A+B, every torn length of the temp files) is recovered in a child and must serve every
// document; (2) every single fault write|sync|rename|create|seek|remove : k (k = 1..all) is injected into
// the seal; whether the process dies (fm.seal -> logger.Fatal) or survives, every document must be served
// in-process (if alive) and after a restart from the directory left behind.

import (
	"context"
	"encoding/json"
	"fmt"
	"os"
	"sort"
	"sync/atomic"
	"testing"
	"time"

	"github.com/ozontech/seq-db/conf"
	"github.com/ozontech/seq-db/consts"
	"github.com/ozontech/seq-db/frac"
	"github.com/ozontech/seq-db/fracmanager"
	"github.com/ozontech/seq-db/zzverif/vcrash"
	"github.com/ozontech/seq-db/zzverif/vfrac"
	"github.com/ozontech/seq-db/zzverif/vlib"
	"github.com/ozontech/seq-db/zzverif/vos"
)

type sealJob struct {
	Dir      string `json:"dir"`
	SkipSort bool   `json:"skip_sort"`
	KeepMeta bool   `json:"keep_meta"`
	Fail     string `json:"fail,omitempty"`
}

type sealResult struct {
	LoadErr    string         `json:"load_err,omitempty"`
	Journal    []vos.Op       `json:"journal"`
	Counts     map[string]int `json:"counts"`
	Status     []docStatus    `json:"status"`
	FaultFired bool           `json:"fault_fired"`
}

func c08Handle(raw json.RawMessage) any {
	var job sealJob
	if err := json.Unmarshal(raw, &job); err != nil {
		panic(err)
	}
	conf.SkipFsync = false
	conf.IndexWorkers = 1
	conf.ReaderWorkers = 2
	vos.SetRoot(job.Dir)
	cfg := &fracmanager.Config{DataDir: job.Dir, FracSize: 100 * consts.MB, TotalSize: 1000 * consts.MB, CacheSize: 10 * consts.MB,
		Fraction:   frac.Config{SkipSortDocs: job.SkipSort, KeepMetaFile: job.KeepMeta},
		SealParams: frac.SealParams{DocBlockSize: 128}}
	fm := fracmanager.NewFracManager(cfg)
	var res sealResult
	if err := fm.Load(context.Background()); err != nil {
		res.LoadErr = err.Error()
		return res
	}
	vos.ResetCounts()
	vos.SetFail(job.Fail)
	fm.SealForcedForTests() // rotate + seal (a seal error is logger.Fatal, as in production)
	res.FaultFired = vos.Failed
	vos.SetFail("")
	res.Counts = vos.OpCounts()
	res.Status = c01Status(fm)
	res.Journal = vos.Journal()
	vos.SetRoot("")
	return res
}

type c08Case struct {
	Ingest   []int  `json:"ingest"`
	SkipSort bool   `json:"skip_sort"`
	KeepMeta bool   `json:"keep_meta"`
	Fail     string `json:"fail,omitempty"`
	K        int    `json:"k,omitempty"`
	Torn     int    `json:"torn,omitempty"`
	Lost     string `json:"lost,omitempty"`
	Crash    bool   `json:"crash,omitempty"`
}

type c08Explorer struct {
	nrec int64
	r    *vlib.Run
	seal *vlib.Pool
	rec  *vlib.Pool
}

// statusOK: every doc of the ingested bulks is "ok", every other doc "absent".
func c08Judge(ingest []int, st []docStatus) (bool, string) {
	in := map[int]bool{}
	for _, b := range ingest {
		in[b] = true
	}
	var bad []string
	for _, s := range st {
		want := "absent"
		if in[s.Bulk] {
			want = "ok"
		}
		if s.Status != want {
			bad = append(bad, fmt.Sprintf("bulk %d id %s: %s (want %s)", s.Bulk, s.ID, s.Status, want))
		}
	}
	return len(bad) == 0, fmt.Sprint(bad)
}

func statusKind(st []docStatus, ingest []int) string {
	in := map[int]bool{}
	for _, b := range ingest {
		in[b] = true
	}
	kinds := map[string]bool{}
	for _, s := range st {
		if in[s.Bulk] && s.Status != "ok" {
			k := s.Status
			if i := indexByte(k, ':'); i > 0 {
				k = k[:i]
			}
			kinds[k] = true
		}
		if !in[s.Bulk] && s.Status != "absent" {
			kinds["phantom"] = true
		}
	}
	var ks []string
	for k := range kinds {
		ks = append(ks, k)
	}
	sort.Strings(ks)
	return fmt.Sprint(ks)
}

func indexByte(s string, c byte) int {
	for i := 0; i < len(s); i++ {
		if s[i] == c {
			return i
		}
	}
	return -1
}

// recover runs the real loader on fs in a child and judges it.
func (e *c08Explorer) recover(fs vcrash.FS, c c08Case, what string) {
	dir := vfrac.MkTmp("c08r")
	defer os.RemoveAll(dir)
	if err := fs.Materialize(dir); err != nil {
		panic(err)
	}
	var res stageResult
	jr, err := e.rec.Do(stageJob{Dir: dir}, &res, 120*time.Second)
	if err != nil {
		panic(err)
	}
	e.r.Add("evaluations", 1)
	e.r.Add("recoveries", 1)
	cfgs := fmt.Sprintf("ingest=%v skipsort=%v keepmeta=%v", c.Ingest, c.SkipSort, c.KeepMeta)
	desc := fmt.Sprintf("%s %s case=%s files=%v", what, cfgs, vlib.JSON(c), fs.Listing())
	if jr.Died || jr.Hung {
		d2 := vfrac.MkTmp("c08r")
		fs.Materialize(d2)
		var r2 stageResult
		j2, _ := e.rec.Do(stageJob{Dir: d2}, &r2, 120*time.Second)
		os.RemoveAll(d2)
		if j2.Died || j2.Hung {
			e.r.Violation(fmt.Sprintf("%s: store-does-not-come-back %s cause=%s", what, cfgs, normCause(firstCause(jr.Stderr))), c, desc+"\n"+tailStr(jr.Stderr, 1500))
		}
		return
	}
	if res.LoadErr != "" {
		e.r.Violation(fmt.Sprintf("%s: load-error %s %s", what, cfgs, normCause(res.LoadErr)), c, desc+"\n"+res.LoadErr)
		return
	}
	if ok, bad := c08Judge(c.Ingest, res.Before); !ok {
		e.r.Violation(fmt.Sprintf("%s: documents-not-served-after-restart %s kinds=%s", what, cfgs, statusKind(res.Before, c.Ingest)), c, desc+"\n"+bad)
		return
	}
	// the same state again, but the first start is interrupted (cancelled context) before the store is started for good
	if n := atomic.AddInt64(&e.nrec, 1); e.r.Thorough() || n%2 == 0 || e.r.Replay != "" {
		d3 := vfrac.MkTmp("c08r")
		defer os.RemoveAll(d3)
		if err := fs.Materialize(d3); err != nil {
			panic(err)
		}
		var r3 stageResult
		j3, err := e.rec.Do(stageJob{Dir: d3, CancelFirst: true}, &r3, 120*time.Second)
		if err != nil {
			panic(err)
		}
		e.r.Add("evaluations", 1)
		e.r.Add("recoveries_after_interrupted_start", 1)
		switch {
		case j3.Died || j3.Hung:
			e.r.Violation(fmt.Sprintf("%s: store-does-not-come-back after an interrupted start %s cause=%s", what, cfgs, normCause(firstCause(j3.Stderr))), c, desc+"\n"+tailStr(j3.Stderr, 1500))
		case r3.LoadErr != "":
			e.r.Violation(fmt.Sprintf("%s: load-error after an interrupted start %s %s", what, cfgs, normCause(r3.LoadErr)), c, desc+"\n"+r3.LoadErr)
		default:
			if ok, bad := c08Judge(c.Ingest, r3.Before); !ok {
				e.r.Violation(fmt.Sprintf("%s: documents-not-served after an interrupted start %s kinds=%s", what, cfgs, statusKind(r3.Before, c.Ingest)), c, desc+"\n"+bad)
			}
		}
	}
	// the same state again: the store starts, retention deletes every fraction (what the interrupted seal left behind
	// included), and the store is started once more - it comes up, and nothing of the deleted fraction is served
	if n := atomic.LoadInt64(&e.nrec); e.r.Thorough() || n%4 == 1 || e.r.Replay != "" {
		d4 := vfrac.MkTmp("c08r")
		defer os.RemoveAll(d4)
		if err := fs.Materialize(d4); err != nil {
			panic(err)
		}
		var r4, r5 stageResult
		j4, err := e.rec.Do(stageJob{Dir: d4, DeleteAll: true}, &r4, 120*time.Second)
		if err != nil {
			panic(err)
		}
		if j4.Died || j4.Hung || r4.LoadErr != "" {
			return // judged above
		}
		j5, err := e.rec.Do(stageJob{Dir: d4}, &r5, 120*time.Second)
		if err != nil {
			panic(err)
		}
		e.r.Add("evaluations", 1)
		e.r.Add("recoveries_after_deletion", 1)
		switch {
		case j5.Died || j5.Hung:
			e.r.Violation(fmt.Sprintf("%s: store-does-not-come-back after retention deleted the recovered fraction %s cause=%s", what, cfgs, normCause(firstCause(j5.Stderr))), c, desc+"\n"+tailStr(j5.Stderr, 1500))
		case r5.LoadErr != "":
			e.r.Violation(fmt.Sprintf("%s: load-error after retention deleted the recovered fraction %s %s", what, cfgs, normCause(r5.LoadErr)), c, desc+"\n"+r5.LoadErr)
		default:
			for _, st := range r5.Before {
				if st.Status != "absent" {
					e.r.Violation(fmt.Sprintf("%s: a document of the deleted fraction is served again %s", what, cfgs), c, desc+fmt.Sprintf("\n%+v", st))
					break
				}
			}
		}
	}
}

func (e *c08Explorer) runConfig(base vcrash.FS, ingest []int, skipSort, keepMeta bool, only *c08Case) {
	c0 := c08Case{Ingest: ingest, SkipSort: skipSort, KeepMeta: keepMeta}
	cfgs := fmt.Sprintf("ingest=%v skipsort=%v keepmeta=%v", ingest, skipSort, keepMeta)
	doSeal := func(fail string) (*sealResult, vlib.JobResult, vcrash.FS) {
		dir := vfrac.MkTmp("c08s")
		defer os.RemoveAll(dir)
		if err := base.Materialize(dir); err != nil {
			panic(err)
		}
		var res sealResult
		jr, err := e.seal.Do(sealJob{Dir: dir, SkipSort: skipSort, KeepMeta: keepMeta, Fail: fail}, &res, 120*time.Second)
		if err != nil {
			panic(err)
		}
		left, err := vcrash.ReadDir(dir)
		if err != nil {
			panic(err)
		}
		// journal paths refer to dir; rebase happens through root=dir in Enumerate, so return dir-relative FS
		res.Journal = rebase(res.Journal, dir)
		return &res, jr, left
	}
	// fault-free seal
	ff, jr, left := doSeal("")
	e.r.Add("evaluations", 1)
	if jr.Died || jr.Hung {
		e.r.Violation("fault-free seal died "+cfgs, c0, tailStr(jr.Stderr, 1500))
		return
	}
	if ok, bad := c08Judge(ingest, ff.Status); !ok {
		e.r.Violation("fault-free seal: documents-not-served-in-process "+cfgs, c0, bad)
	}
	if only == nil || (!only.Crash && only.Fail == "") {
		e.recover(left, c0, "after-seal")
	}
	e.r.Sample(map[string]any{"config": cfgs, "seal_journal": journalSummary(ff.Journal), "op_counts": ff.Counts})
	// (1) crash states
	if only == nil || only.Crash {
		opt := vcrash.Options{ModelB: true, FullTorn: 4096, TailFull: 64, Stride: 7, Borders: []int{16, 33}}
		vcrash.Enumerate(base, "/ROOT", ff.Journal, opt, func(cs vcrash.CrashState) bool {
			c := c0
			c.Crash, c.K, c.Torn, c.Lost = true, cs.K, cs.Torn, cs.Lost
			if only != nil && (only.K != c.K || only.Torn != c.Torn || only.Lost != c.Lost) {
				return true
			}
			e.r.Add("crash_states", 1)
			e.r.Distinct("nontrivial", cfgs+"|"+cs.FS.Canon())
			e.recover(cs.FS, c, "crash")
			return !e.r.Expired()
		})
	}
	// (2) single faults
	kinds := []string{"write", "sync", "rename", "create", "seek", "remove", "read"}
	for _, kind := range kinds {
		// a failing write comes in three flavours: a plain I/O error, "no space left" with nothing written, and
		// "no space left" after the first half of the buffer went to the file (the next attempt succeeds in all three),
		// and a fourth that is a fault sequence: the volume stays full, the k-th and every later write fail (what a
		// retry, a deferred flush or a clean-up write then meets)
		modes := []string{""}
		if kind == "write" {
			modes = []string{"", ":enospc", ":enospc-torn", ":enospc-sticky"}
		}
		for k := 1; k <= ff.Counts[kind]*len(modes); k++ {
			spec := fmt.Sprintf("%s:%d%s", kind, (k-1)/len(modes)+1, modes[(k-1)%len(modes)])
			if only != nil && (only.Crash || only.Fail != spec) {
				continue
			}
			if e.r.Expired() {
				return
			}
			c := c0
			c.Fail = spec
			res, jr, left := doSeal(spec)
			e.r.Add("evaluations", 1)
			e.r.Add("faults_injected", 1)
			e.r.Distinct("nontrivial", cfgs+"|fault|"+spec)
			if jr.Hung {
				e.r.Violation(fmt.Sprintf("fault %s: seal hung %s", kind, cfgs), c, tailStr(jr.Stderr, 1000))
				continue
			}
			if jr.Died {
				e.r.Add("faults_process_died", 1)
				e.recover(left, c, "fault-"+kind+"-died")
				continue
			}
			e.r.Add("faults_survived", 1)
			if ok, bad := c08Judge(ingest, res.Status); !ok {
				e.r.Violation(fmt.Sprintf("fault %s: seal returned but documents-not-served-in-process %s kinds=%s", kind, cfgs, statusKind(res.Status, ingest)), c, fmt.Sprintf("fault=%s fired=%v\n%s", spec, res.FaultFired, bad))
			}
			e.recover(left, c, "fault-"+kind+"-survived")
		}
	}
}

// rebase rewrites absolute journal paths from dir to the fixed pseudo root "/ROOT".
func rebase(j []vos.Op, dir string) []vos.Op {
	res := make([]vos.Op, len(j))
	for i, o := range j {
		if len(o.Path) >= len(dir) && o.Path[:len(dir)] == dir {
			o.Path = "/ROOT" + o.Path[len(dir):]
		}
		if len(o.To) >= len(dir) && o.To[:len(dir)] == dir {
			o.To = "/ROOT" + o.To[len(dir):]
		}
		res[i] = o
	}
	return res
}

func (e *c08Explorer) prepare(ingest []int) vcrash.FS {
	dir := vfrac.MkTmp("c08p")
	defer os.RemoveAll(dir)
	var res stageResult
	jr, err := e.rec.Do(stageJob{Dir: dir, Ingest: ingest}, &res, 120*time.Second)
	if err != nil || jr.Died || jr.Hung || res.LoadErr != "" {
		panic(fmt.Sprintf("prepare failed: %v %+v %s", err, jr, res.LoadErr))
	}
	fs, err := vcrash.ReadDir(dir)
	if err != nil {
		panic(err)
	}
	return fs
}

func TestVerifC08(t *testing.T) {
	r := vlib.NewRun("C08")
	e := &c08Explorer{r: r, seal: vlib.NewPool("c08", vlib.Workers()), rec: vlib.NewPool("c01", vlib.Workers())}
	defer e.seal.Close()
	defer e.rec.Close()
	var rc c08Case
	if r.LoadReplay(&rc) {
		e.runConfig(e.prepare(rc.Ingest), rc.Ingest, rc.SkipSort, rc.KeepMeta, &rc)
		r.Finish(t, "fault_enumeration", "replay", nil, nil)
		return
	}
	corpora := [][]int{{2}, {1, 2}, {4, 1, 3}, {5}}
	if r.Thorough() {
		corpora = append(corpora, []int{1}, []int{3, 4}, []int{1, 2, 3, 4}, []int{5, 1}, []int{2, 5, 4})
	}
	type cfg struct {
		ingest             []int
		skipSort, keepMeta bool
	}
	var cfgs []cfg
	for _, ing := range corpora {
		for _, ss := range []bool{false, true} {
			for _, km := range []bool{false, true} {
				cfgs = append(cfgs, cfg{ing, ss, km})
			}
		}
	}
	bases := map[string]vcrash.FS{}
	for _, ing := range corpora {
		bases[fmt.Sprint(ing)] = e.prepare(ing)
	}
	vlib.Parallel(len(cfgs), vlib.Workers(), func(i int) {
		c := cfgs[i]
		e.runConfig(bases[fmt.Sprint(c.ingest)], c.ingest, c.skipSort, c.keepMeta, nil)
		r.Add("configs", 1)
	})
	ev := r.Get("evaluations")
	r.Finish(t, "fault_enumeration",
		fmt.Sprintf("corpora %v (bulks of 1-3 documents; bulk 5 is token-heavy: its dictionary spans many 64-byte token blocks) x SkipSortDocs x KeepMetaFile, scaled block constants (4 IDs / 4 LIDs per block, 64-byte token blocks, 128-byte doc blocks): (1) every crash state of the journal of load+rotate+seal+release (Model A: every prefix and every torn length of every write; Model B: lost unsynced tails / overwrites), de-duplicated, recovered by the real loader in a child: every ingested document must be fetched byte-for-byte and found by each token, also (every second state; thorough: every state) when the first start is interrupted by a cancelled context and the store is then started again; (2) every single fault kind:k for kind in write,sync,rename,create,seek,remove and k=1..count observed in the fault-free run: process death (fm.seal -> Fatal) => recover from the directory left behind; survival => documents served in-process and after restart. distinct_nontrivial = distinct crash states + injected faults", corpora),
		map[string]any{
			"states":                        r.DistinctCount("nontrivial"),
			"transitions":                   ev,
			"traces_validated_against_impl": ev,
			"crash_states":                  r.Get("crash_states"),
			"faults_injected":               r.Get("faults_injected"),
		},
		[]string{"persistence model as in C01 (namespace operations atomic/ordered/durable)", "one fault per run; a failing remove of the original files is tolerated by design (logged), the documents must still be served"})
}
