//go:build verif_fs

package hfs

// C01 — acknowledged bulks survive any crash/restart history, intact and uncorrupted.
// BFS over stages: run(ingest) -> every crash state of the stage's file-operation journal (Model A:
// prefix + torn in-flight write; Model B: + loss of unsynced tails) -> recover in a child process
// (real FracManager.Load), check, ingest more, crash again ... to depth 3.

import (
	"context"
	"encoding/json"
	"fmt"
	"os"
	"sort"
	"strings"
	"sync"
	"testing"
	"time"

	"github.com/ozontech/seq-db/conf"
	"github.com/ozontech/seq-db/consts"
	"github.com/ozontech/seq-db/fracmanager"
	"github.com/ozontech/seq-db/seq"
	"github.com/ozontech/seq-db/zzverif/refdb"
	"github.com/ozontech/seq-db/zzverif/vcrash"
	"github.com/ozontech/seq-db/zzverif/vfrac"
	"github.com/ozontech/seq-db/zzverif/vlib"
	"github.com/ozontech/seq-db/zzverif/vos"
)

// ---- bulk universe ----

func c01Bulk(b int) []refdb.Doc {
	mk := func(mid, rid uint64, size int) refdb.Doc {
		body := fmt.Sprintf(`{"b":%d,"id":"%d.%d","p":"`, b, mid, rid)
		for len(body) < size {
			body += string(rune('a' + (len(body)+b)%26))
		}
		body += `"}`
		return refdb.Doc{ID: refdb.ID{MID: mid, RID: rid}, Body: body,
			Toks: []refdb.Tok{{F: "u", V: fmt.Sprintf("%d_%d", mid, rid)}, {F: "k", V: "a"}, {F: "b", V: fmt.Sprint(b)}}}
	}
	switch b {
	case 1:
		return []refdb.Doc{mk(1000, 1, 20), mk(1000, 2, 90)}
	case 2:
		return []refdb.Doc{mk(1001, 1, 45)}
	case 3:
		return []refdb.Doc{mk(1002, 1, 30), mk(1001, 2, 64)}
	case 4:
		return []refdb.Doc{mk(1003, 1, 25), mk(1003, 2, 26), mk(1004, 3, 150)}
	case 5:
		// token-heavy bulk (C08): the token dictionary of the sealed index spans many 64-byte token blocks
		docs := []refdb.Doc{mk(1005, 1, 40), mk(1005, 2, 33), mk(1006, 1, 70)}
		for i := range docs {
			for j := 0; j < 4; j++ {
				docs[i].Toks = append(docs[i].Toks, refdb.Tok{F: "d", V: fmt.Sprintf("d%d-%d-%s", i, j, "qwertyuiopas")})
			}
			docs[i].Toks = append(docs[i].Toks, refdb.Tok{F: "s", V: fmt.Sprintf("e%d-%s", i, "zxcvbnmasdfghjklqwerty")}, refdb.Tok{F: "p", V: "shared-token-of-bulk-five"})
		}
		return docs
	}
	panic(b)
}

const c01Universe = 5

// c01BigBulk: one bulk of 2500 documents with high-entropy tokens — its compressed meta block is far larger than
// 64 KiB (the blocks of the ordinary bulks are a few hundred bytes). Not part of the universe every recovery checks.
func c01BigBulk() []refdb.Doc {
	docs := make([]refdb.Doc, 2500)
	x := uint32(2463534242)
	rnd := func(n int) string {
		b := make([]byte, n)
		for i := range b {
			x ^= x << 13
			x ^= x >> 17
			x ^= x << 5
			b[i] = byte('a' + x%26)
		}
		return string(b)
	}
	for i := range docs {
		docs[i] = refdb.Doc{ID: refdb.ID{MID: uint64(2000 + i/3), RID: uint64(i + 1)}, Body: fmt.Sprintf(`{"big":%d,"p":"%s"}`, i, rnd(8+i%23)),
			Toks: []refdb.Tok{{F: "u", V: fmt.Sprintf("big%d", i)}, {F: "s", V: rnd(14)}, {F: "p", V: rnd(11)}}}
	}
	return docs
}

// c01LongBulks: a long ingestion history for ONE index worker — a wide bulk (400 documents, many distinct tokens),
// 198 one-document bulks, a 40-document bulk, 60 one-document bulks, ten 3-document bulks. State that the write
// path keeps between bulks (pooled collectors, buffers sized by a rolling window over the last 200 bulks) is
// re-sized somewhere inside such a history; every acknowledged document must be served whatever that state is.
func c01LongBulks() [][]refdb.Doc {
	var res [][]refdb.Doc
	n := 0
	mk := func(k int) []refdb.Doc {
		docs := make([]refdb.Doc, k)
		for i := range docs {
			n++
			docs[i] = refdb.Doc{ID: refdb.ID{MID: uint64(5000 + n/2), RID: uint64(n)}, Body: fmt.Sprintf(`{"long":%d,"p":"%s"}`, n, strings.Repeat(string(rune('a'+n%26)), 5+n%40)),
				Toks: []refdb.Tok{{F: "u", V: fmt.Sprintf("long%d", n)}, {F: "k", V: "a"}, {F: "s", V: fmt.Sprintf("svc%d", n%7)}}}
			if k >= 40 {
				docs[i].Toks = append(docs[i].Toks, refdb.Tok{F: "d", V: fmt.Sprintf("wide-%d-%d", k, i)}, refdb.Tok{F: "p", V: fmt.Sprintf("p%d", n*7919%1000)})
			}
		}
		return docs
	}
	res = append(res, mk(400))
	for i := 0; i < 198; i++ {
		if i == 4 || i == 6 { // the previous bulk delivered again as a whole (the proxy's retry after a lost acknowledgement)
			res = append(res, res[len(res)-1])
			continue
		}
		res = append(res, mk(1))
	}
	res = append(res, mk(40))
	for i := 0; i < 60; i++ {
		res = append(res, mk(1))
	}
	for i := 0; i < 10; i++ {
		res = append(res, mk(3))
	}
	return res
}

// ---- worker ----

type stageJob struct {
	Dir    string `json:"dir"`
	Ingest []int  `json:"ingest"`
	// conformance of the persistence model: really die at journal position KillK after KillT bytes
	Kill  bool `json:"kill,omitempty"`
	KillK int  `json:"kill_k,omitempty"`
	KillT int  `json:"kill_t,omitempty"`
	// CancelFirst: the start-up is first attempted with an already cancelled context (the process is told to stop
	// while it loads: SIGTERM during start) and abandoned, then the store is started normally on the same directory
	CancelFirst bool `json:"cancel_first,omitempty"`
	// DeleteAll: after the start, every fraction is deleted the way retention deletes it (Suicide); nothing else
	DeleteAll bool `json:"delete_all,omitempty"`
	// Big: the large-block history. BigIngest: this stage ingests [bulk 1, the big bulk, bulk 2]; the answer lists only
	// the documents of these three bulks that are not served correctly.
	Big       bool `json:"big,omitempty"`
	BigIngest bool `json:"big_ingest,omitempty"`
	// Long: the long history (c01LongBulks), LongIngest: this stage ingests it
	Long       bool `json:"long,omitempty"`
	LongIngest bool `json:"long_ingest,omitempty"`
}

type docStatus struct {
	Bulk   int    `json:"bulk"`
	ID     string `json:"id"`
	Status string `json:"status"` // ok | absent | wrong-bytes | search-miss:<tok> | phantom-search | error:<...>
}

type stageResult struct {
	LoadErr   string         `json:"load_err,omitempty"`
	Before    []docStatus    `json:"before"` // after recovery, before ingesting
	After     []docStatus    `json:"after"`  // after ingesting this stage's bulks (same process)
	AppendErr map[int]string `json:"append_err,omitempty"`
	Journal   []vos.Op       `json:"journal"`
	Final     vcrash.FS      `json:"-"`
}

func c01Status(fm *fracmanager.FracManager) []docStatus {
	var docs []refdb.Doc
	var bulks []int
	for b := 1; b <= c01Universe; b++ {
		for _, d := range c01Bulk(b) {
			docs = append(docs, d)
			bulks = append(bulks, b)
		}
	}
	res := c01StatusOf(fm, docs, false)
	for i := range res {
		res[i].Bulk = bulks[i]
	}
	return res
}

// c01StatusOf judges every given document: fetched byte for byte and found by each of its tokens.
// onlyBad: return only the documents that are not "ok" (large histories).
func c01StatusOf(fm *fracmanager.FracManager, all []refdb.Doc, onlyBad bool) []docStatus {
	var res []docStatus
	searcher := fracmanager.NewSearcher(2, fracmanager.SearcherCfg{FractionsPerIteration: 2})
	fetcher := fracmanager.NewFetcher(2)
	fracs := fm.GetAllFracs()
	for _, d := range all {
		st := docStatus{ID: fmt.Sprintf("%d.%d", d.ID.MID, d.ID.RID)}
		docs, err := fetcher.FetchDocs(context.Background(), fracs, []seq.IDSource{{ID: vfrac.SeqID(d.ID)}})
		found := 0
		switch {
		case err != nil:
			st.Status = "error:fetch:" + err.Error()
		case len(docs) != 1 || len(docs[0]) == 0:
			st.Status = "absent"
		case string(docs[0]) != d.Body:
			st.Status = fmt.Sprintf("wrong-bytes:%q", docs[0])
		default:
			st.Status = "ok"
		}
		// findable by each of its tokens
		for _, tk := range d.Toks {
			pq, perr := vfrac.Parse(refdb.Lit{Field: tk.F, Pattern: tk.V})
			if perr != nil {
				panic(perr)
			}
			qpr, serr := searcher.SearchDocs(context.Background(), fracs, vfrac.Params(pq, 0, vfrac.MaxMID, false, 1000, false))
			if serr != nil {
				st.Status = "error:search:" + serr.Error()
				break
			}
			has := false
			for _, id := range qpr.IDs {
				if vfrac.RefID(id.ID) == d.ID {
					has = true
				}
			}
			if has {
				found++
			} else if st.Status == "ok" {
				st.Status = "search-miss:" + tk.F + ":" + tk.V
			}
		}
		if st.Status == "absent" && found > 0 {
			st.Status = "phantom-search" // listed by search but not fetchable
		}
		if !onlyBad || st.Status != "ok" {
			res = append(res, st)
		}
	}
	return res
}

func c01Handle(raw json.RawMessage) any {
	var job stageJob
	if err := json.Unmarshal(raw, &job); err != nil {
		panic(err)
	}
	conf.SkipFsync = false
	conf.IndexWorkers = 1
	conf.ReaderWorkers = 2
	vos.SetRoot(job.Dir)
	if job.Kill {
		vos.SetKillAt(job.KillK, job.KillT)
	}
	res := stageResult{AppendErr: map[int]string{}}
	cfg := &fracmanager.Config{DataDir: job.Dir, FracSize: 100 * consts.MB, TotalSize: 1000 * consts.MB, CacheSize: 10 * consts.MB, ShouldReplay: true}
	if job.CancelFirst {
		ctx0, cancel0 := context.WithCancel(context.Background())
		cancel0()
		cfg0 := *cfg
		_ = fracmanager.NewFracManager(&cfg0).Load(ctx0) // whatever it returns: the process goes away
	}
	fm := fracmanager.NewFracManager(cfg)
	if err := fm.Load(context.Background()); err != nil {
		res.LoadErr = err.Error()
		res.Journal = vos.Journal()
		return res
	}
	if job.DeleteAll {
		for _, f := range fm.GetAllFracs() {
			f.Suicide()
		}
		vos.SetRoot("")
		return res
	}
	if job.Big {
		if job.BigIngest {
			for _, blk := range [][]refdb.Doc{c01Bulk(1), c01BigBulk(), c01Bulk(2)} {
				d, m := vfrac.BuildBulk(blk, 1)
				if err := fm.Append(context.Background(), d, m); err != nil {
					res.LoadErr = "append: " + err.Error()
					return res
				}
			}
			fm.WaitIdle()
		}
		res.Before = c01StatusOf(fm, append(append(c01Bulk(1), c01BigBulk()...), c01Bulk(2)...), true)
		vos.SetRoot("")
		return res
	}
	if job.Long {
		var all []refdb.Doc
		for _, blk := range c01LongBulks() {
			all = append(all, blk...)
			if job.LongIngest {
				d, m := vfrac.BuildBulk(blk, 1)
				if err := fm.Append(context.Background(), d, m); err != nil {
					res.LoadErr = "append: " + err.Error()
					return res
				}
			}
		}
		fm.WaitIdle()
		res.Before = c01StatusOf(fm, all, true)
		vos.SetRoot("")
		return res
	}
	res.Before = c01Status(fm)
	for _, b := range job.Ingest {
		d, m := vfrac.BuildBulk(c01Bulk(b), 1)
		vos.Mark(fmt.Sprintf("start:%d", b))
		ctx, cancel := context.WithTimeout(context.Background(), 20*time.Second)
		err := fm.Append(ctx, d, m)
		cancel()
		if err != nil {
			res.AppendErr[b] = err.Error()
			continue
		}
		vos.Mark(fmt.Sprintf("ack:%d", b))
	}
	fm.WaitIdle()
	res.After = c01Status(fm)
	res.Journal = vos.Journal()
	vos.SetRoot("")
	for _, f := range fm.GetAllFracs() {
		_ = f
	}
	return res
}

func TestVerifWorker(t *testing.T) {
	vlib.ServeWorker(map[string]vlib.Handler{"c01": c01Handle, "c08": c08Handle, "c15": c15Handle, "c19": c19Handle})
}

// ---- parent ----

type c01Step struct {
	Ingest []int  `json:"ingest"`
	K      int    `json:"k"`    // crash after K ops of this stage's journal (-1: this is the last, verify-only stage)
	Torn   int    `json:"torn"` // bytes of op K applied
	Lost   string `json:"lost,omitempty"`
}

type c01Node struct {
	fs      vcrash.FS
	acked   map[int]bool
	started map[int]bool
	path    []c01Step
}

func setStr(m map[int]bool) string {
	var k []int
	for b := range m {
		k = append(k, b)
	}
	sort.Ints(k)
	return fmt.Sprint(k)
}

func cloneSet(m map[int]bool) map[int]bool {
	c := map[int]bool{}
	for k, v := range m {
		c[k] = v
	}
	return c
}

type c01Explorer struct {
	r      *vlib.Run
	pool   *vlib.Pool
	plan   [][]int // ingest list per depth
	opts   []vcrash.Options
	seenMu sync.Mutex
	seen   map[string]bool
}

// runStage materialises the node, runs recovery+ingest in a worker and judges the result.
// It returns the stage result (nil when the store did not come back).
func (e *c01Explorer) runStage(n *c01Node, ingest []int) (*stageResult, string) {
	dir := vfrac.MkTmp("c01")
	defer os.RemoveAll(dir)
	if err := n.fs.Materialize(dir); err != nil {
		panic(err)
	}
	var res stageResult
	jr, err := e.pool.Do(stageJob{Dir: dir, Ingest: ingest}, &res, 120*time.Second)
	if err != nil {
		panic(err)
	}
	e.r.Add("evaluations", 1)
	e.r.Add("recoveries", 1)
	rc := c01Case{Path: append(append([]c01Step{}, n.path...), c01Step{Ingest: ingest, K: -1})}
	desc := fmt.Sprintf("path=%s acked=%s started=%s files=%v", vlib.JSON(rc.Path), setStr(n.acked), setStr(n.started), n.fs.Listing())
	if jr.Died || jr.Hung {
		// confirm twice on fresh directories
		again := 0
		for i := 0; i < 2; i++ {
			d2 := vfrac.MkTmp("c01r")
			n.fs.Materialize(d2)
			var r2 stageResult
			j2, _ := e.pool.Do(stageJob{Dir: d2, Ingest: ingest}, &r2, 120*time.Second)
			os.RemoveAll(d2)
			if j2.Died || j2.Hung {
				again++
			}
		}
		if again == 2 {
			cause := firstCause(jr.Stderr)
			e.r.Violation(fmt.Sprintf("store-does-not-come-back depth=%d cause=%s", len(n.path), normCause(cause)), rc, desc+"\n"+tailStr(jr.Stderr, 1500))
		}
		return nil, ""
	}
	if res.LoadErr != "" {
		e.r.Violation(fmt.Sprintf("load-error depth=%d err=%s", len(n.path), normCause(res.LoadErr)), rc, desc+"\n"+res.LoadErr)
		return nil, ""
	}
	// judge the state right after recovery
	e.judge(n, res.Before, "after-recovery", rc, desc, nil)
	// and after this stage's ingestion (no crash in between): acked-now bulks must be visible too
	ackedNow := cloneSet(n.acked)
	for _, b := range ingest {
		if _, failed := res.AppendErr[b]; !failed {
			ackedNow[b] = true
		}
	}
	n2 := &c01Node{fs: n.fs, acked: ackedNow, started: n.started, path: n.path}
	e.judge(n2, res.After, "after-ingest", rc, desc, nil)
	for b, msg := range res.AppendErr {
		e.r.Violation(fmt.Sprintf("append-error depth=%d err=%s", len(n.path), normCause(msg)), rc, fmt.Sprintf("%s\nbulk %d: %s", desc, b, msg))
	}
	return &res, dir
}

func (e *c01Explorer) judge(n *c01Node, st []docStatus, when string, rc c01Case, desc string, _ any) {
	byBulk := map[int][]docStatus{}
	for _, s := range st {
		byBulk[s.Bulk] = append(byBulk[s.Bulk], s)
	}
	for b := 1; b <= c01Universe; b++ {
		ss := byBulk[b]
		nOK, nAbsent := 0, 0
		var bad []string
		for _, s := range ss {
			switch s.Status {
			case "ok":
				nOK++
			case "absent":
				nAbsent++
			default:
				bad = append(bad, s.ID+"="+s.Status)
			}
		}
		kind := ""
		switch {
		case len(bad) > 0:
			kind = "corrupt"
			if strings.Contains(strings.Join(bad, " "), "wrong-bytes") {
				kind = "wrong-bytes"
			} else if strings.Contains(strings.Join(bad, " "), "search-miss") {
				kind = "search-miss"
			} else if strings.Contains(strings.Join(bad, " "), "error:") {
				kind = "read-error"
			}
		case n.acked[b] && nOK != len(ss):
			kind = "acked-lost"
		case !n.acked[b] && !n.started[b] && nAbsent != len(ss):
			kind = "phantom-bulk"
		case nOK != 0 && nAbsent != 0:
			kind = "partial-bulk"
		}
		if kind != "" {
			state := "unacked"
			if n.acked[b] {
				state = "acked"
			}
			e.r.Violation(fmt.Sprintf("%s %s depth=%d %s", kind, state, len(n.path), when), rc,
				fmt.Sprintf("%s\nbulk %d (%s) statuses: %s", desc, b, state, vlib.JSON(ss)))
		}
	}
}

func firstCause(stderr string) string {
	for _, l := range strings.Split(stderr, "\n") {
		if strings.HasPrefix(l, "panic:") || strings.HasPrefix(l, "fatal error:") || strings.Contains(l, "\"level\":\"fatal\"") || strings.Contains(l, "FATAL") {
			return l
		}
	}
	ls := strings.Split(strings.TrimSpace(stderr), "\n")
	return ls[len(ls)-1]
}

func normCause(s string) string {
	if i := strings.Index(s, `"message":"`); i >= 0 {
		s = s[i+len(`"message":"`):]
		if j := strings.Index(s, `"`); j >= 0 {
			s = "fatal: " + s[:j]
		}
	}
	s = reULIDc.ReplaceAllString(s, "seq-db-X")
	s = reNumc.ReplaceAllString(s, "N")
	if len(s) > 140 {
		s = s[:140]
	}
	return s
}

func tailStr(s string, n int) string {
	if len(s) > n {
		return s[len(s)-n:]
	}
	return s
}

type c01Case struct {
	Path    []c01Step `json:"path"`
	Big     bool      `json:"big,omitempty"`  // the large-block history (re-run as a whole)
	Long    bool      `json:"long,omitempty"` // the long history (re-run as a whole)
	BigStep int       `json:"big_step,omitempty"`
}

// explore runs the BFS from node n at the given depth.
func (e *c01Explorer) explore(n *c01Node, depth int) {
	if e.r.Expired() {
		return
	}
	ingest := e.plan[depth]
	res, root := e.runStage(n, ingest)
	if res == nil || depth == len(e.plan)-1 {
		return
	}
	// children: every crash state of this stage's journal over the node's file system
	var children []*c01Node
	vcrash.Enumerate(n.fs, root, res.Journal, e.opts[depth], func(cs vcrash.CrashState) bool {
		acked, started := cloneSet(n.acked), cloneSet(n.started)
		for _, m := range cs.Marks {
			var b int
			if _, err := fmt.Sscanf(m, "ack:%d", &b); err == nil {
				acked[b] = true
			}
			if _, err := fmt.Sscanf(m, "start:%d", &b); err == nil {
				started[b] = true
			}
		}
		key := fmt.Sprintf("%d|%s|%s|%s", depth+1, cs.FS.Canon(), setStr(acked), setStr(started))
		e.seenMu.Lock()
		dup := e.seen[key]
		e.seen[key] = true
		e.seenMu.Unlock()
		e.r.Add("crash_states_generated", 1)
		if dup {
			return true
		}
		step := c01Step{Ingest: ingest, K: cs.K, Torn: cs.Torn, Lost: cs.Lost}
		children = append(children, &c01Node{fs: cs.FS, acked: acked, started: started, path: append(append([]c01Step{}, n.path...), step)})
		return true
	})
	e.r.Add("distinct_crash_states", int64(len(children)))
	for _, c := range children {
		e.r.Distinct("nontrivial", fmt.Sprintf("%d|%s|%s", depth+1, c.fs.Canon(), setStr(c.acked)))
	}
	if depth == 0 {
		e.r.Sample(map[string]any{"stage_journal": journalSummary(res.Journal), "crash_states": len(children)})
		e.conformance(ingest, res.Journal, root)
		vlib.Parallel(len(children), vlib.Workers(), func(i int) { e.explore(children[i], depth+1) })
	} else {
		for _, c := range children {
			e.explore(c, depth+1)
		}
	}
}

func journalSummary(j []vos.Op) []string {
	var res []string
	for i, o := range j {
		name := o.Path
		if i := strings.LastIndex(name, "."); i >= 0 && o.Path != "" {
			name = "*" + name[i:]
		}
		switch o.Kind {
		case "write":
			res = append(res, fmt.Sprintf("%d write %s off=%d len=%d", i, name, o.Off, len(o.Data)))
		case "mark":
			res = append(res, fmt.Sprintf("%d mark %s", i, o.Note))
		case "rename":
			res = append(res, fmt.Sprintf("%d rename %s -> %s", i, name, o.To[strings.LastIndex(o.To, "."):]))
		default:
			res = append(res, fmt.Sprintf("%d %s %s", i, o.Kind, name))
		}
	}
	return res
}

// conformance: for a subset of crash states of stage 1, re-run the stage in a child that REALLY dies at
// that journal position (partial write performed on the real file system, then os.Exit) and compare
// the directory left behind with the materialised state, byte for byte (modulo fraction ULIDs).
func (e *c01Explorer) conformance(ingest []int, journal []vos.Op, root string) {
	n := 0
	vcrash.Enumerate(vcrash.FS{}, root, journal, vcrash.Options{FullTorn: 0, Stride: 29, Borders: []int{33}}, func(cs vcrash.CrashState) bool {
		if cs.K >= len(journal) {
			return true
		}
		n++
		dir := vfrac.MkTmp("c01k")
		defer os.RemoveAll(dir)
		var res stageResult
		w := vlib.NewWorker("c01")
		jr, _ := w.Do(stageJob{Dir: dir, Ingest: ingest, Kill: true, KillK: cs.K, KillT: cs.Torn}, &res, 60*time.Second)
		w.Close()
		if !jr.Died {
			e.r.Violation(fmt.Sprintf("HARNESS conformance: child did not die at k=%d t=%d", cs.K, cs.Torn), nil, "kill-at point not reached")
			return true
		}
		got, err := vcrash.ReadDir(dir)
		if err != nil {
			panic(err)
		}
		if got.Canon() != cs.FS.Canon() {
			e.r.Violation(fmt.Sprintf("HARNESS conformance mismatch k=%d t=%d", cs.K, cs.Torn), nil, fmt.Sprintf("real %v\nmodel %v", got.Listing(), cs.FS.Listing()))
		}
		e.r.Add("killat_conformance_checked", 1)
		return n < 80
	})
}

// replay follows a recorded path.
func (e *c01Explorer) replay(path []c01Step) {
	n := &c01Node{fs: vcrash.FS{}, acked: map[int]bool{}, started: map[int]bool{}}
	for _, st := range path {
		res, root := e.runStage(n, st.Ingest)
		if res == nil || st.K < 0 {
			return
		}
		var next *c01Node
		opt := vcrash.Options{ModelB: true, FullTorn: 1 << 20, TailFull: 1 << 20}
		vcrash.Enumerate(n.fs, root, res.Journal, opt, func(cs vcrash.CrashState) bool {
			if cs.K == st.K && cs.Torn == st.Torn && cs.Lost == st.Lost {
				acked, started := cloneSet(n.acked), cloneSet(n.started)
				for _, m := range cs.Marks {
					var b int
					if _, err := fmt.Sscanf(m, "ack:%d", &b); err == nil {
						acked[b] = true
					}
					if _, err := fmt.Sscanf(m, "start:%d", &b); err == nil {
						started[b] = true
					}
				}
				next = &c01Node{fs: cs.FS, acked: acked, started: started, path: append(append([]c01Step{}, n.path...), st)}
				return false
			}
			return true
		})
		if next == nil {
			fmt.Printf("replay: crash state k=%d torn=%d lost=%q not found\n", st.K, st.Torn, st.Lost)
			return
		}
		n = next
	}
}

// c01BigHistory: see the comment inside.
func c01BigHistory(r *vlib.Run, e *c01Explorer) {
	// ---- large-block history: [bulk 1, a 2500-document bulk, bulk 2] acknowledged, then three plain restarts (the
	// second one with an interrupted first start): every document is served after each of them. No crash points here:
	// the point is the size of one block in the meta file.
	if !r.Expired() {
		dir := vfrac.MkTmp("c01big")
		for step := 0; step < 4; step++ {
			var res stageResult
			jr, err := e.pool.Do(stageJob{Dir: dir, Big: true, BigIngest: step == 0, CancelFirst: step == 2}, &res, 300*time.Second)
			if err != nil {
				panic(err)
			}
			r.Add("evaluations", 1)
			r.Add("large_block_restarts", 1)
			c := c01Case{Big: true, BigStep: step}
			what := []string{"after ingest", "after restart 1", "after an interrupted start and restart 2", "after restart 3"}[step]
			switch {
			case jr.Died || jr.Hung:
				r.Violation("large-block history: store-does-not-come-back "+what+" cause="+normCause(firstCause(jr.Stderr)), c, tailStr(jr.Stderr, 1500))
			case res.LoadErr != "":
				r.Violation("large-block history: load-error "+what+" "+normCause(res.LoadErr), c, res.LoadErr)
			case len(res.Before) > 0:
				r.Violation(fmt.Sprintf("large-block history: documents-not-served %s first=%s", what, normCause(res.Before[0].Status)), c, fmt.Sprintf("%d of 2505 documents are not served, e.g. %+v", len(res.Before), res.Before[:min(5, len(res.Before))]))
			}
			if jr.Died || jr.Hung || res.LoadErr != "" {
				break
			}
		}
		os.RemoveAll(dir)
	}
}

// c01LongHistory: the long ingestion history acknowledged bulk by bulk, then two plain restarts: every document is
// served after each step.
func c01LongHistory(r *vlib.Run, e *c01Explorer) {
	if r.Expired() {
		return
	}
	dir := vfrac.MkTmp("c01long")
	defer os.RemoveAll(dir)
	total := 0
	for _, b := range c01LongBulks() {
		total += len(b)
	}
	for step := 0; step < 3; step++ {
		var res stageResult
		jr, err := e.pool.Do(stageJob{Dir: dir, Long: true, LongIngest: step == 0}, &res, 300*time.Second)
		if err != nil {
			panic(err)
		}
		r.Add("evaluations", 1)
		r.Add("long_history_steps", 1)
		c := c01Case{Long: true, BigStep: step}
		what := []string{"after ingest", "after restart 1", "after restart 2"}[step]
		switch {
		case jr.Died || jr.Hung:
			r.Violation("long history: store-does-not-come-back "+what+" cause="+normCause(firstCause(jr.Stderr)), c, tailStr(jr.Stderr, 1500))
		case res.LoadErr != "":
			r.Violation("long history: load-error "+what+" "+normCause(res.LoadErr), c, res.LoadErr)
		case len(res.Before) > 0:
			r.Violation(fmt.Sprintf("long history: documents-not-served %s first=%s", what, normCause(res.Before[0].Status)), c, fmt.Sprintf("%d of %d documents are not served, e.g. %+v", len(res.Before), total, res.Before[:min(5, len(res.Before))]))
		}
		if jr.Died || jr.Hung || res.LoadErr != "" {
			break
		}
	}
}

func TestVerifC01(t *testing.T) {
	r := vlib.NewRun("C01")
	pool := vlib.NewPool("c01", vlib.Workers())
	defer pool.Close()
	e := &c01Explorer{r: r, pool: pool, seen: map[string]bool{}}
	var rc c01Case
	if r.LoadReplay(&rc) {
		if rc.Long {
			c01LongHistory(r, e)
		} else if rc.Big {
			c01BigHistory(r, e)
		} else {
			e.replay(rc.Path)
		}
		r.Finish(t, "fault_enumeration", "replay", nil, nil)
		return
	}
	full := vcrash.Options{ModelB: true, FullTorn: 400, Stride: 1, TailFull: 400, Borders: []int{33}}
	thin := vcrash.Options{ModelB: true, FullTorn: 0, Stride: 16, TailFull: 0, Borders: []int{33}}
	type planT struct {
		plan [][]int
		opts []vcrash.Options
	}
	plans := []planT{
		{[][]int{{1, 2}, {3}, {}}, []vcrash.Options{full, full, {}}},
		{[][]int{{1}, {2}, {3}, {}}, []vcrash.Options{thin, thin, thin, {}}},
	}
	if r.Thorough() {
		plans = []planT{
			{[][]int{{1, 2}, {3}, {4}, {}}, []vcrash.Options{full, full, thin, {}}},
			{[][]int{{1}, {2}, {3}, {4}, {}}, []vcrash.Options{full, thin, thin, thin, {}}},
			{[][]int{{4, 1}, {2, 3}, {}}, []vcrash.Options{full, full, {}}},
		}
	}
	var planDesc []string
	for _, p := range plans {
		e.plan, e.opts = p.plan, p.opts
		planDesc = append(planDesc, fmt.Sprint(p.plan))
		root := &c01Node{fs: vcrash.FS{}, acked: map[int]bool{}, started: map[int]bool{}}
		e.explore(root, 0)
	}
	e.plan = nil
	c01BigHistory(r, e)
	c01LongHistory(r, e)
	ev := r.Get("evaluations")
	r.Finish(t, "fault_enumeration",
		fmt.Sprintf("stage plans %v (ingest per stage; last stage verifies only): stage 1 from an empty directory; every crash state of each stage's file-operation journal (Model A: every prefix x every torn length of the in-flight write; Model B: additionally every cut of unsynced tails per file and lost unsynced overwrites), de-duplicated by a canonical hash (fraction ULIDs renamed in creation order), is recovered by the real FracManager.Load in a child process, checked (every document of every bulk: fetch byte-for-byte + findable by each token; acked => present, unacked => wholly present or wholly absent, never-sent => absent), then used as the base of the next stage. Torn lengths: every byte length for the 2-restart plan, stride 16 + header borders for the deeper plan. Plus one large-block history: a 2500-document bulk (a meta block far over 64 KiB) between two small ones, then three plain restarts, one of them after an interrupted start; and one long history: 310 bulks through one index worker (a 400-document bulk, 198 single-document bulks - two of them a repeat of the bulk before -, a 40-document bulk, 60 single documents, ten 3-document bulks), then two plain restarts. A subset of stage-1 states is validated against a child that really dies at that journal position (killat_conformance_checked). distinct_nontrivial = distinct (depth, canonical directory, acked set) states recovered", planDesc),
		map[string]any{
			"states":                        r.DistinctCount("nontrivial"),
			"transitions":                   ev,
			"traces_validated_against_impl": ev,
			"crash_states_generated":        r.Get("crash_states_generated"),
			"killat_conformance_checked":    r.Get("killat_conformance_checked"),
		},
		[]string{"persistence model: file data is durable once a later sync of that file is in the journal; creates/renames/removes are atomic, ordered and durable (a missing directory fsync is outside the model)", "real fsync is elided by the vos shim; its journal order is what is judged"})
}
