//go:build verif_sched

package vfrac

import "github.com/ozontech/seq-db/zzverif/vsync"

// WG is the WaitGroup type frac.Active.Append expects under the sched overlay (sync -> vsync).
type WG = vsync.WaitGroup

func waitIndexed(wg *WG) { wg.Wait() }
