package vfrac

import (
	"fmt"

	"github.com/ozontech/seq-db/frac/processor"
	"github.com/ozontech/seq-db/parser"
	"github.com/ozontech/seq-db/seq"
	"github.com/ozontech/seq-db/zzverif/refdb"
)

// Mapping used by the fraction-level harnesses: k,n,g,v keyword; m text.
var Mapping = seq.Mapping{
	"k":        seq.NewSingleType(seq.TokenizerTypeKeyword, "", 0),
	"n":        seq.NewSingleType(seq.TokenizerTypeKeyword, "", 0),
	"g":        seq.NewSingleType(seq.TokenizerTypeKeyword, "", 0),
	"v":        seq.NewSingleType(seq.TokenizerTypeKeyword, "", 0),
	"u":        seq.NewSingleType(seq.TokenizerTypeKeyword, "", 0),
	"d":        seq.NewSingleType(seq.TokenizerTypeKeyword, "", 0),
	"b":        seq.NewSingleType(seq.TokenizerTypeKeyword, "", 0),
	"s":        seq.NewSingleType(seq.TokenizerTypeKeyword, "", 0),
	"p":        seq.NewSingleType(seq.TokenizerTypeKeyword, "", 0),
	"q":        seq.NewSingleType(seq.TokenizerTypeKeyword, "", 0),
	"m":        seq.NewSingleType(seq.TokenizerTypeText, "", 0),
	"_exists_": seq.NewSingleType(seq.TokenizerTypeKeyword, "", 0),
}

// Template is a token set of a document; _exists_ tokens are added by WithExists.
type Template []refdb.Tok

func WithExists(t []refdb.Tok) []refdb.Tok {
	res := append([]refdb.Tok{}, t...)
	seen := map[string]bool{}
	for _, x := range t {
		if !seen[x.F] {
			seen[x.F] = true
			res = append(res, refdb.Tok{F: "_exists_", V: x.F})
		}
	}
	return res
}

// Templates for C02/C05: one per shortcut in the matchers (exact/prefix/suffix/infix, numeric forms,
// non-numeric value in a numeric field, text words, no tokens at all).
var Templates = []Template{
	{{"k", "a"}, {"n", "1"}, {"m", "x"}},
	{{"k", "ab"}, {"n", "+2"}, {"m", "x"}, {"m", "y"}}, // a number spelled with an explicit plus sign
	{{"k", "b"}, {"n", "10"}},
	{{"k", "ba"}, {"n", "-1"}, {"m", "y"}},
	{{"k", "abc"}, {"n", "1.5"}},
	{{"k", "a"}, {"n", "x1"}},
	{},
}

// DocSpec selects template and timestamp slot.
type DocSpec struct {
	T  int `json:"t"`
	TS int `json:"ts"`
}

const BaseMID = 1000

// MakeDocs builds documents for a corpus: MID = BaseMID+ts, RID by position (ascending or
// descending with arrival order).
func MakeDocs(specs []DocSpec, ridDesc bool) []refdb.Doc {
	docs := make([]refdb.Doc, len(specs))
	for i, s := range specs {
		rid := uint64(10 + i)
		if ridDesc {
			rid = uint64(100 - i)
		}
		docs[i] = refdb.Doc{
			ID:   refdb.ID{MID: uint64(BaseMID + s.TS), RID: rid},
			Body: fmt.Sprintf(`{"i":%d,"t":"T%d","pad":"%s"}`, i, s.T, pad(i*7)),
			Toks: WithExists(Templates[s.T]),
		}
	}
	return docs
}

// pad returns n pseudo-random letters (incompressible, so that compressed block sizes and therefore block
// offsets differ between documents and fractions).
func pad(n int) string {
	b := make([]byte, n)
	x := uint32(n)*2654435761 + 12345
	for i := range b {
		x = x*1664525 + 1013904223
		b[i] = byte('a' + (x>>24)%26)
	}
	return string(b)
}

// Pad is pad for harness packages.
func Pad(n int) string { return pad(n) }

// Splits returns all compositions of n (ways to split a sequence into consecutive bulks).
func Splits(n int) [][]int {
	if n == 0 {
		return [][]int{{}}
	}
	var res [][]int
	for first := 1; first <= n; first++ {
		for _, rest := range Splits(n - first) {
			res = append(res, append([]int{first}, rest...))
		}
	}
	return res
}

// ParsedQuery is a reference query with its real, parsed AST.
type ParsedQuery struct {
	Ref  refdb.Query
	Text string
	AST  *parser.ASTNode
}

func Parse(q refdb.Query) (ParsedQuery, error) {
	text := q.Render()
	ast, err := parser.ParseSeqQL(text, Mapping)
	if err != nil {
		return ParsedQuery{}, fmt.Errorf("parse %q: %w", text, err)
	}
	return ParsedQuery{Ref: q, Text: text, AST: ast.Root}, nil
}

func Params(pq ParsedQuery, from, to uint64, asc bool, limit int, withTotal bool) processor.SearchParams {
	o := seq.DocsOrderDesc
	if asc {
		o = seq.DocsOrderAsc
	}
	return processor.SearchParams{AST: pq.AST, From: seq.MID(from), To: seq.MID(to), Limit: limit, WithTotal: withTotal, Order: o}
}
