//go:build !verif_sched

package vfrac

import "sync"

// WG is the WaitGroup type frac.Active.Append expects in this build configuration.
type WG = sync.WaitGroup
