//go:build !verif_sched

package vfrac

import (
	"sync"
	"time"
)

// WG is the WaitGroup type frac.Active.Append expects in this build configuration.
type WG = sync.WaitGroup

// waitIndexed waits until the index worker has processed the bulk. Indexing a bulk of a few documents takes
// milliseconds; if it has not finished after five minutes it never will (a worker that skips the Done of a bulk),
// and the harness process ends with a panic - which the driver reports as a violation - instead of hanging until
// the go test timeout, which would end without a verdict.
func waitIndexed(wg *WG) {
	done := make(chan struct{})
	go func() { wg.Wait(); close(done) }()
	select {
	case <-done:
	case <-time.After(5 * time.Minute):
		panic("vfrac: the index worker did not finish an acknowledged bulk within 5 minutes (the bulk is never indexed)")
	}
}
