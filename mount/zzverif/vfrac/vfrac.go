// Package vfrac holds harness helpers to build bulks and fractions through seq-db's exported API.
package vfrac

import (
	"context"
	"encoding/binary"
	"fmt"
	"os"
	"path/filepath"
	"sync/atomic"

	"github.com/ozontech/seq-db/cache"
	"github.com/ozontech/seq-db/conf"
	"github.com/ozontech/seq-db/disk"
	"github.com/ozontech/seq-db/frac"
	"github.com/ozontech/seq-db/frac/lids"
	"github.com/ozontech/seq-db/frac/processor"
	"github.com/ozontech/seq-db/frac/token"
	"github.com/ozontech/seq-db/seq"
	"github.com/ozontech/seq-db/zzverif/refdb"
)

func TmpRoot() string {
	if d := os.Getenv("VERIF_TMP"); d != "" {
		return d
	}
	if st, err := os.Stat("/dev/shm"); err == nil && st.IsDir() {
		return "/dev/shm"
	}
	return os.TempDir()
}

func MkTmp(prefix string) string {
	d, err := os.MkdirTemp(TmpRoot(), "verif-"+prefix+"-")
	if err != nil {
		panic(err)
	}
	return d
}

func SeqID(id refdb.ID) seq.ID { return seq.ID{MID: seq.MID(id.MID), RID: seq.RID(id.RID)} }
func RefID(id seq.ID) refdb.ID { return refdb.ID{MID: uint64(id.MID), RID: uint64(id.RID)} }

func RefIDs(ids []seq.ID) []refdb.ID {
	r := make([]refdb.ID, len(ids))
	for i, id := range ids {
		r[i] = RefID(id)
	}
	return r
}

func metaFor(id seq.ID, size int, toks []refdb.Tok) frac.MetaData {
	md := frac.MetaData{ID: id, Size: uint32(size)}
	md.Tokens = append(md.Tokens, frac.MetaToken{Key: []byte(seq.TokenAll), Value: []byte{}})
	for _, t := range toks {
		md.Tokens = append(md.Tokens, frac.MetaToken{Key: []byte(t.F), Value: []byte(t.V)})
	}
	return md
}

// BuildBulk encodes documents into a (docs block, meta block) pair as the proxy would send them.
// Every meta carries the `_all_` token first, as bulk.indexer does. Nested token sets become extra
// metas with Size 0 under the same ID.
func BuildBulk(docs []refdb.Doc, zstdLevel int) (disk.DocBlock, disk.DocBlock) {
	var d, m []byte
	appendMeta := func(md frac.MetaData) {
		p := len(m)
		m = append(m, 0, 0, 0, 0)
		m = md.MarshalBinaryTo(m)
		binary.LittleEndian.PutUint32(m[p:], uint32(len(m)-p-4))
	}
	for i := range docs {
		doc := &docs[i]
		d = binary.LittleEndian.AppendUint32(d, uint32(len(doc.Body)))
		d = append(d, doc.Body...)
		appendMeta(metaFor(SeqID(doc.ID), len(doc.Body), doc.Toks))
		for _, n := range doc.Nested {
			appendMeta(metaFor(SeqID(doc.ID), 0, n))
		}
	}
	db := disk.CompressDocBlock(d, nil, zstdLevel)
	mb := disk.CompressDocBlock(m, nil, zstdLevel)
	mb.SetExt1(uint64(len(db)))
	return db, mb
}

// Env owns a shared indexer and read limiter for frac-level harnesses.
type Env struct {
	AI  *frac.ActiveIndexer
	RL  *disk.ReadLimiter
	Dir string
	seq int64
}

func NewEnv(prefix string) *Env {
	conf.SkipFsync = true
	if conf.IndexWorkers > 2 {
		conf.IndexWorkers = 2
	}
	ai := frac.NewActiveIndexer(2, 2)
	ai.Start()
	return &Env{AI: ai, RL: disk.NewReadLimiter(4, nil), Dir: MkTmp(prefix)}
}

func (e *Env) Close() {
	e.AI.Stop()
	os.RemoveAll(e.Dir)
}

func (e *Env) NextBase() string {
	n := atomic.AddInt64(&e.seq, 1)
	return filepath.Join(e.Dir, fmt.Sprintf("seq-db-F%08d", n))
}

func NewIndexCache(cl *cache.Cleaner) *frac.IndexCache {
	return &frac.IndexCache{
		MIDs: cache.NewCache[[]byte](cl, nil), RIDs: cache.NewCache[[]byte](cl, nil), Params: cache.NewCache[[]uint64](cl, nil),
		LIDs: cache.NewCache[*lids.Chunks](cl, nil), Tokens: cache.NewCache[*token.CacheEntry](cl, nil),
		TokenTable: cache.NewCache[token.Table](cl, nil), Registry: cache.NewCache[[]byte](cl, nil),
	}
}

func (e *Env) NewActive(base string, cfg *frac.Config) *frac.Active {
	if cfg == nil {
		cfg = &frac.Config{}
	}
	return frac.NewActive(base, e.AI, e.RL, cache.NewCache[[]byte](nil, nil), cache.NewCache[[]byte](nil, nil), cfg)
}

// Append ingests docs as one bulk and waits until it is indexed.
func (e *Env) Append(a *frac.Active, docs []refdb.Doc) error {
	d, m := BuildBulk(docs, 1)
	var wg WG
	wg.Add(1)
	if err := a.Append(d, m, &wg); err != nil {
		return err
	}
	waitIndexed(&wg)
	return nil
}

// Seal seals the active fraction and returns the preloaded sealed fraction.
func (e *Env) Seal(a *frac.Active, params frac.SealParams, cl *cache.Cleaner) (*frac.Sealed, error) {
	pre, err := frac.Seal(a, params)
	if err != nil {
		return nil, err
	}
	s := frac.NewSealedPreloaded(a.BaseFileName, pre, e.RL, NewIndexCache(cl), cache.NewCache[[]byte](cl, nil), a.Config)
	return s, nil
}

// Reopen opens a sealed fraction from its files (info==nil: header is read).
func (e *Env) Reopen(base string, info *frac.Info, cfg *frac.Config, cl *cache.Cleaner) *frac.Sealed {
	if cfg == nil {
		cfg = &frac.Config{}
	}
	return frac.NewSealed(base, e.RL, NewIndexCache(cl), cache.NewCache[[]byte](cl, nil), info, cfg)
}

func Search(f frac.Fraction, p processor.SearchParams) (*seq.QPR, error) {
	dp, rel := f.DataProvider(context.Background())
	defer rel()
	return dp.Search(p)
}

// SearchCtx / FetchCtx: the same with the caller's context (the store code polls ctx.Done() between its steps).
func SearchCtx(ctx context.Context, f frac.Fraction, p processor.SearchParams) (*seq.QPR, error) {
	dp, rel := f.DataProvider(ctx)
	defer rel()
	return dp.Search(p)
}

func FetchCtx(ctx context.Context, f frac.Fraction, ids []seq.ID) ([][]byte, error) {
	dp, rel := f.DataProvider(ctx)
	defer rel()
	return dp.Fetch(ids)
}

func Fetch(f frac.Fraction, ids []seq.ID) ([][]byte, error) {
	dp, rel := f.DataProvider(context.Background())
	defer rel()
	return dp.Fetch(ids)
}

const MaxMID = uint64(1) << 50
