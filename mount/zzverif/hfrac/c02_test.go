package hfrac

// C02 — search returns exactly the matching documents, ordered, limited and counted.
// (i) node level: every pair of sorted sub-lists of {1..5} through And/Or/NAnd/Not, both directions.
// (ii) fraction level: every corpus of <= N documents over templates x timestamps, on an active and a
// sealed fraction, every query tree of <= 2 leaves (NOT anywhere) over 10 atoms (+ 3-leaf trees over
// 3 atoms), every [from,to] over a border grid, both orders, limits {0,1,2,n,n+1}, with/without total.

import (
	"fmt"
	"sort"
	"strings"
	"sync"
	"testing"

	"github.com/ozontech/seq-db/frac"
	"github.com/ozontech/seq-db/node"
	"github.com/ozontech/seq-db/seq"
	"github.com/ozontech/seq-db/zzverif/refdb"
	"github.com/ozontech/seq-db/zzverif/vfrac"
	"github.com/ozontech/seq-db/zzverif/vlib"
)

// ---------- node level ----------

func drain(n node.Node) []uint32 {
	var r []uint32
	for i := 0; i < 100; i++ {
		v, ok := n.Next()
		if !ok {
			return r
		}
		r = append(r, v)
	}
	return append(r, 0xffffffff) // runaway marker
}

func subsets(n int) [][]uint32 {
	var res [][]uint32
	for m := 0; m < 1<<n; m++ {
		var s []uint32
		for i := 0; i < n; i++ {
			if m&(1<<i) != 0 {
				s = append(s, uint32(i+1))
			}
		}
		res = append(res, s)
	}
	return res
}

type nodeCase struct {
	Op      string   `json:"op"`
	A, B    []uint32 `json:"a"`
	C       []uint32 `json:"c,omitempty"`
	Min     uint32   `json:"min"`
	Max     uint32   `json:"max"`
	Reverse bool     `json:"reverse"`
}

func inSet(s []uint32, v uint32) bool {
	for _, x := range s {
		if x == v {
			return true
		}
	}
	return false
}

func runNodeCase(c nodeCase) (got, want []uint32) {
	mk := func(s []uint32) node.Node { return node.NewStatic(s, c.Reverse) }
	var n node.Node
	var pred func(v uint32) bool
	lo, hi := uint32(1), uint32(5)
	switch c.Op {
	case "and":
		n = node.NewAnd(mk(c.A), mk(c.B), c.Reverse)
		pred = func(v uint32) bool { return inSet(c.A, v) && inSet(c.B, v) }
	case "or":
		n = node.NewOr(mk(c.A), mk(c.B), c.Reverse)
		pred = func(v uint32) bool { return inSet(c.A, v) || inSet(c.B, v) }
	case "nand": // NAnd(negative, regular) = regular and not negative
		n = node.NewNAnd(mk(c.A), mk(c.B), c.Reverse)
		pred = func(v uint32) bool { return !inSet(c.A, v) && inSet(c.B, v) }
	case "not":
		n = node.NewNot(mk(c.A), c.Min, c.Max, c.Reverse)
		lo, hi = c.Min, c.Max
		pred = func(v uint32) bool { return !inSet(c.A, v) }
	case "ortree":
		n = node.BuildORTree([]node.Node{mk(c.A), mk(c.B), mk(c.C)}, c.Reverse)
		pred = func(v uint32) bool { return inSet(c.A, v) || inSet(c.B, v) || inSet(c.C, v) }
	case "and-or": // (A or B) and C
		n = node.NewAnd(node.NewOr(mk(c.A), mk(c.B), c.Reverse), mk(c.C), c.Reverse)
		pred = func(v uint32) bool { return (inSet(c.A, v) || inSet(c.B, v)) && inSet(c.C, v) }
	case "nand-or": // C and not (A or B)
		n = node.NewNAnd(node.NewOr(mk(c.A), mk(c.B), c.Reverse), mk(c.C), c.Reverse)
		pred = func(v uint32) bool { return !(inSet(c.A, v) || inSet(c.B, v)) && inSet(c.C, v) }
	}
	for v := lo; v <= hi && hi >= lo; v++ {
		if pred(v) {
			want = append(want, v)
		}
	}
	if c.Reverse {
		sort.Slice(want, func(i, j int) bool { return want[i] > want[j] })
	}
	return drain(n), want
}

func judgeNode(r *vlib.Run, c nodeCase) {
	r.Add("evaluations", 1)
	r.Add("node_cases", 1)
	got, want := runNodeCase(c)
	if fmt.Sprint(got) != fmt.Sprint(want) {
		r.Violation(fmt.Sprintf("node %s a=%v b=%v c=%v min=%d max=%d rev=%v", c.Op, c.A, c.B, c.C, c.Min, c.Max, c.Reverse),
			c02Case{Node: &c}, fmt.Sprintf("got %v want %v", got, want))
	}
	if len(want) > 0 {
		r.Distinct("nontrivial", "node|"+vlib.JSON(c))
	}
}

// ---------- fraction level ----------

var c02Atoms = []refdb.Query{
	refdb.Lit{Field: "k", Pattern: "a"},
	refdb.Lit{Field: "k", Pattern: "a*"},
	refdb.Lit{Field: "k", Pattern: "*b"},
	refdb.Lit{Field: "k", Pattern: "*b*"},
	refdb.Rng{R: refdb.Range{Field: "n", From: "1", To: "2", IncFrom: true, IncTo: true}},
	refdb.Rng{R: refdb.Range{Field: "n", From: "1", ToUnb: true, IncFrom: false, IncTo: true}},
	refdb.Rng{R: refdb.Range{Field: "k", From: "a", To: "b", IncFrom: true, IncTo: false}},
	refdb.In{Field: "k", Patterns: []string{"a", "ba"}},
	refdb.Lit{Field: "m", Pattern: "x"},
	refdb.Lit{Field: "_exists_", Pattern: "m"},
}

func withNots(q refdb.Query) []refdb.Query { return []refdb.Query{q, refdb.Not{X: q}} }

// trees with <= 2 leaves over atoms, NOT at every position
func trees2(atoms []refdb.Query) []refdb.Query {
	var res []refdb.Query
	res = append(res, refdb.All{})
	for _, a := range atoms {
		res = append(res, withNots(a)...)
	}
	for _, a := range atoms {
		for _, b := range atoms {
			for _, la := range withNots(a) {
				for _, lb := range withNots(b) {
					res = append(res, withNots(refdb.And{L: la, R: lb})...)
					res = append(res, withNots(refdb.Or{L: la, R: lb})...)
				}
			}
		}
	}
	return res
}

// 3-leaf trees, both shapes, over a small atom set, NOT at every position
func trees3(atoms []refdb.Query) []refdb.Query {
	var res []refdb.Query
	ops := []func(l, r refdb.Query) refdb.Query{
		func(l, r refdb.Query) refdb.Query { return refdb.And{L: l, R: r} },
		func(l, r refdb.Query) refdb.Query { return refdb.Or{L: l, R: r} },
	}
	for _, a := range atoms {
		for _, b := range atoms {
			for _, c := range atoms {
				for _, la := range withNots(a) {
					for _, lb := range withNots(b) {
						for _, lc := range withNots(c) {
							for _, o1 := range ops {
								for _, o2 := range ops {
									for _, inner := range withNots(o1(la, lb)) {
										res = append(res, withNots(o2(inner, lc))...)
									}
									for _, inner := range withNots(o1(lb, lc)) {
										res = append(res, withNots(o2(la, inner))...)
									}
								}
							}
						}
					}
				}
			}
		}
	}
	return res
}

type c02Case struct {
	Node    *nodeCase       `json:"node,omitempty"`
	Specs   []vfrac.DocSpec `json:"specs,omitempty"`
	RidDesc bool            `json:"rid_desc,omitempty"`
	Split   []int           `json:"split,omitempty"`
	Sealed  bool            `json:"sealed,omitempty"`
	Probe   bool            `json:"probe,omitempty"` // searches run between the bulks (forces lazy merges of posting lists)
	Query   string          `json:"query,omitempty"`
	From    uint64          `json:"from,omitempty"`
	To      uint64          `json:"to,omitempty"`
	Asc     bool            `json:"asc,omitempty"`
	Limit   int             `json:"limit,omitempty"`
	Total   bool            `json:"total,omitempty"`
}

type builtCorpus struct {
	docs   []refdb.Doc
	active *frac.Active
	sealed *frac.Sealed
}

// probeQueries touch the `_all_` list and one list of every field, so that their queued postings are
// merged before the next bulk arrives (posting lists merge lazily, on search).
var probeQueries []vfrac.ParsedQuery

func buildCorpus(env *vfrac.Env, specs []vfrac.DocSpec, ridDesc bool, split []int, seal bool, probe ...func(sofar []refdb.Doc, a *frac.Active)) (*builtCorpus, error) {
	docs := vfrac.MakeDocs(specs, ridDesc)
	bc := &builtCorpus{docs: docs}
	a := env.NewActive(env.NextBase(), &frac.Config{})
	pos := 0
	for i, n := range split {
		if err := env.Append(a, docs[pos:pos+n]); err != nil {
			return nil, err
		}
		pos += n
		if len(probe) > 0 && probe[0] != nil && i < len(split)-1 {
			probe[0](docs[:pos], a)
		}
	}
	bc.active = a
	if seal {
		s, err := env.Seal(a, frac.SealParams{IDsZstdLevel: 1, LIDsZstdLevel: 1, TokenListZstdLevel: 1, DocsPositionsZstdLevel: 1, TokenTableZstdLevel: 1, DocBlocksZstdLevel: 1}, nil)
		if err != nil {
			return nil, err
		}
		bc.sealed = s
	}
	return bc, nil
}

func (bc *builtCorpus) frac() frac.Fraction {
	if bc.sealed != nil {
		return bc.sealed
	}
	return bc.active
}

func (bc *builtCorpus) close() {
	if bc.sealed != nil {
		bc.active.Release()
		bc.sealed.Suicide()
	} else {
		bc.active.Suicide()
	}
}

var timeGrid = []uint64{0, vfrac.BaseMID - 1, vfrac.BaseMID, vfrac.BaseMID + 1, vfrac.BaseMID + 2, vfrac.BaseMID + 3, vfrac.MaxMID}

func idsStr(ids []refdb.ID) string {
	var b strings.Builder
	for _, id := range ids {
		fmt.Fprintf(&b, "%d.%d ", id.MID, id.RID)
	}
	return b.String()
}

// searchOnce runs one request on the real fraction and compares with refdb.
func searchOnce(r *vlib.Run, bc *builtCorpus, c c02Case, pq vfrac.ParsedQuery) {
	r.Add("evaluations", 1)
	qpr, err := vfrac.Search(bc.frac(), vfrac.Params(pq, c.From, c.To, c.Asc, c.Limit, c.Total))
	wantIDs, wantTotal := refdb.Search(bc.docs, pq.Ref, c.From, c.To, c.Asc, c.Limit)
	sig := func(kind string) string {
		return fmt.Sprintf("%s specs=%v ridDesc=%v split=%v sealed=%v probe=%v q=%s range=[%d,%d] asc=%v limit=%d total=%v", kind, c.Specs, c.RidDesc, c.Split, c.Sealed, c.Probe, c.Query, c.From, c.To, c.Asc, c.Limit, c.Total)
	}
	if err != nil {
		r.Violation(sig("search-error"), c, err.Error())
		return
	}
	got := vfrac.RefIDs(qpr.IDs.IDs())
	if idsStr(got) != idsStr(wantIDs) {
		r.Violation(sig("ids"), c, fmt.Sprintf("got [%s] want [%s]", idsStr(got), idsStr(wantIDs)))
		return
	}
	if c.Total && int(qpr.Total) != wantTotal {
		r.Violation(sig("total"), c, fmt.Sprintf("got total %d want %d", qpr.Total, wantTotal))
		return
	}
	if !c.Total && qpr.Total != 0 {
		r.Violation(sig("total-unrequested"), c, fmt.Sprintf("got total %d without WithTotal", qpr.Total))
	}
	if wantTotal > 0 && wantTotal < len(bc.docs) {
		r.Add("nontrivial_requests", 1)
	}
}

func specsKey(s []vfrac.DocSpec) string { return fmt.Sprint(s) }

func TestVerifC02(t *testing.T) {
	r := vlib.NewRun("C02")
	env := vfrac.NewEnv("c02")
	defer env.Close()

	var rc c02Case
	if r.LoadReplay(&rc) {
		if rc.Node != nil {
			got, want := runNodeCase(*rc.Node)
			t.Logf("replay node: got=%v want=%v", got, want)
			judgeNode(r, *rc.Node)
		} else {
			var probeFn func(sofar []refdb.Doc, a *frac.Active)
			if rc.Probe {
				probeQueries, _ = parseAll([]refdb.Query{refdb.All{}, c02Atoms[1], c02Atoms[5], c02Atoms[8], c02Atoms[9]})
				probeFn = func(sofar []refdb.Doc, a *frac.Active) {
					for _, pq := range probeQueries {
						vfrac.Search(a, vfrac.Params(pq, 0, vfrac.MaxMID, false, 100, true))
					}
				}
			}
			bc, err := buildCorpus(env, rc.Specs, rc.RidDesc, rc.Split, rc.Sealed, probeFn)
			if err != nil {
				t.Fatal(err)
			}
			pq, err := parseText(rc.Query)
			if err != nil {
				t.Fatal(err)
			}
			searchOnce(r, bc, rc, pq)
			bc.close()
		}
		r.Finish(t, "model_checking", "replay", nil, nil)
		return
	}

	// ---- (i) node level ----
	subs := subsets(5)
	for _, rev := range []bool{false, true} {
		for _, a := range subs {
			for _, b := range subs {
				for _, op := range []string{"and", "or", "nand"} {
					judgeNode(r, nodeCase{Op: op, A: a, B: b, Reverse: rev})
				}
			}
			for mn := uint32(1); mn <= 5; mn++ {
				for mx := mn; mx <= 5; mx++ {
					// NOT is applied to lists already restricted to [min,max] by the leaf iterators
					var aa []uint32
					for _, v := range a {
						if v >= mn && v <= mx {
							aa = append(aa, v)
						}
					}
					judgeNode(r, nodeCase{Op: "not", A: aa, Min: mn, Max: mx, Reverse: rev})
				}
			}
		}
	}
	sub4 := subsets(4)
	for _, rev := range []bool{false, true} {
		for _, a := range sub4 {
			for _, b := range sub4 {
				for _, c := range sub4 {
					for _, op := range []string{"ortree", "and-or", "nand-or"} {
						judgeNode(r, nodeCase{Op: op, A: a, B: b, C: c, Reverse: rev})
					}
				}
			}
		}
	}
	r.Sample(nodeCase{Op: "nand", A: []uint32{2, 3}, B: []uint32{1, 2, 5}, Reverse: true})

	// ---- (ii) fraction level ----
	maxDocs := 3
	nTemplates := len(vfrac.Templates)
	three := 3
	if r.Thorough() {
		maxDocs = 4
	}
	q2, err := parseAll(trees2(c02Atoms))
	if err != nil {
		t.Fatal(err)
	}
	q3, err := parseAll(trees3([]refdb.Query{c02Atoms[1], c02Atoms[4], c02Atoms[8]}))
	if err != nil {
		t.Fatal(err)
	}
	qGrid, err := parseAll([]refdb.Query{
		refdb.All{}, c02Atoms[1], refdb.Not{X: c02Atoms[0]},
		refdb.Or{L: c02Atoms[2], R: c02Atoms[8]},
		refdb.And{L: refdb.Not{X: c02Atoms[3]}, R: c02Atoms[9]},
	})
	if err != nil {
		t.Fatal(err)
	}
	probeQueries, err = parseAll([]refdb.Query{refdb.All{}, c02Atoms[1], c02Atoms[5], c02Atoms[8], c02Atoms[9]})
	if err != nil {
		t.Fatal(err)
	}
	r.Note("queries: %d trees<=2 leaves, %d 3-leaf trees, %d grid queries", len(q2), len(q3), len(qGrid))

	// enumerate corpora. quick: n<=2 over all templates with every variant; n=3 over the first 5 templates
	// (the duplicate-key and the token-less template are covered at n<=2) with one variant per corpus,
	// chosen round-robin over (split, sealed, ridDesc) so that every variant is hit equally often.
	// thorough: n<=3 over all templates with every variant, then n=4 (first 5 templates) round-robin
	// until the internal horizon.
	var corpora [][]vfrac.DocSpec
	var rec func(cur []vfrac.DocSpec, max, ntpl int)
	rec = func(cur []vfrac.DocSpec, max, ntpl int) {
		if len(cur) == max {
			corpora = append(corpora, append([]vfrac.DocSpec{}, cur...))
			return
		}
		for tpl := 0; tpl < ntpl; tpl++ {
			for ts := 0; ts < three; ts++ {
				rec(append(cur, vfrac.DocSpec{T: tpl, TS: ts}), max, ntpl)
			}
		}
	}
	rec(nil, 1, nTemplates)
	rec(nil, 2, nTemplates)
	if r.Thorough() {
		rec(nil, 3, nTemplates)
		rec(nil, 4, 5)
	} else {
		rec(nil, 3, 4)
	}
	_ = maxDocs
	var sampleOnce sync.Once
	type variant struct {
		split   []int
		ridDesc bool
		sealed  bool
		probe   bool
	}
	vlib.Parallel(len(corpora), 0, func(ci int) {
		if r.Expired() {
			return
		}
		specs := corpora[ci]
		n := len(specs)
		splits := vfrac.Splits(n)
		var all []variant
		for _, sp := range splits {
			for _, sealed := range []bool{false, true} {
				for _, rd := range []bool{false, true} {
					all = append(all, variant{sp, rd, sealed, false})
					if len(sp) > 1 { // several bulks: also with searches between them
						all = append(all, variant{sp, rd, sealed, true})
					}
				}
			}
		}
		vars := all
		switch {
		case r.Thorough() && n <= 3, n == 1:
		case n == 2: // every (split, sealed); RID direction alternates with the corpus index
			vars = nil
			for i, v := range all {
				if v.ridDesc == ((ci+i/2)%2 == 1) || v.probe {
					vars = append(vars, v)
				}
			}
		default:
			vars = []variant{all[ci%len(all)]}
		}
		for vi, v := range vars {
			var probeFn func(sofar []refdb.Doc, a *frac.Active)
			if v.probe {
				probeFn = func(sofar []refdb.Doc, a *frac.Active) {
					// the partially ingested fraction is a corpus of its own: judged like any other
					pb := &builtCorpus{docs: sofar, active: a}
					for _, pq := range probeQueries {
						c := c02Case{Specs: specs[:len(sofar)], RidDesc: v.ridDesc, Split: v.split, Probe: true, Query: pq.Text, From: 0, To: vfrac.MaxMID, Limit: 100, Total: true}
						searchOnce(r, pb, c, pq)
					}
				}
			}
			bc, err := buildCorpus(env, specs, v.ridDesc, v.split, v.sealed, probeFn)
			if err != nil {
				r.Violation(fmt.Sprintf("build specs=%v split=%v sealed=%v", specs, v.split, v.sealed), c02Case{Specs: specs, Split: v.split, Sealed: v.sealed, RidDesc: v.ridDesc}, err.Error())
				continue
			}
			r.Add("fractions_built", 1)
			r.Distinct("nontrivial", fmt.Sprintf("corpus|%v|%v|%v|%v|%v", specs, v.split, v.ridDesc, v.sealed, v.probe))
			base := c02Case{Specs: specs, RidDesc: v.ridDesc, Split: v.split, Sealed: v.sealed, Probe: v.probe}
			// (a) query logic: full range, both orders, unlimited, with total
			run := func(pqs []vfrac.ParsedQuery) {
				for qi, pq := range pqs {
					for _, asc := range []bool{false, true} {
						if !r.Thorough() && asc != ((qi+ci+vi)%2 == 1) {
							continue // quick: order alternates with query/corpus/variant index
						}
						c := base
						c.Query, c.From, c.To, c.Asc, c.Limit, c.Total = pq.Text, 0, vfrac.MaxMID, asc, 100, true
						searchOnce(r, bc, c, pq)
					}
				}
			}
			run(q2)
			// 3-leaf trees: thorough everywhere; quick on the first variant of every 4th corpus
			if r.Thorough() || (vi == 0 && ci%4 == 0) {
				run(q3)
			}
			// (b) range x order x limit x total grid
			for _, pq := range qGrid {
				for _, from := range timeGrid {
					for _, to := range timeGrid {
						if from > to {
							continue
						}
						for _, asc := range []bool{false, true} {
							for _, limit := range []int{0, 1, 2, n, n + 1} {
								for _, total := range []bool{false, true} {
									c := base
									c.Query, c.From, c.To, c.Asc, c.Limit, c.Total = pq.Text, from, to, asc, limit, total
									searchOnce(r, bc, c, pq)
								}
							}
						}
					}
				}
			}
			bc.close()
			if n == 3 {
				sampleOnce.Do(func() {
					c := base
					c.Query, c.From, c.To, c.Limit, c.Total = q2[77].Text, vfrac.BaseMID, vfrac.BaseMID+1, 2, true
					r.Sample(c)
				})
			}
		}
	})
	ev := r.Get("evaluations")
	r.Finish(t, "model_checking",
		fmt.Sprintf("node level: all pairs of subsets of {1..5} x {and,or,nand} + not over all [min,max] + 3-input combinations over subsets of {1..4}, both directions. fraction level: every sequence of <=%d docs over %d templates x 3 timestamps (equal timestamps forced), every split into bulks, with and without searches between the bulks (lazy posting-list merges), active and sealed, RID direction both (alternating for n>=3); queries: all trees <=2 leaves over 10 atoms with NOT anywhere (%d), 3-leaf trees over 3 atoms (%d), grid of 5 queries x all [from,to] over 7 borders x both orders x limits {0,1,2,n,n+1} x total on/off. distinct_nontrivial = distinct fraction builds + node cases with non-empty expected output", maxDocs, nTemplates, len(q2), len(q3)),
		map[string]any{
			"states":                        r.Get("fractions_built") + r.Get("node_cases"),
			"transitions":                   ev,
			"traces_validated_against_impl": ev,
			"corpora":                       len(corpora),
		},
		[]string{"refdb (glob, range rules, boolean evaluation, sort+dedup+cut) is the specification", "tokens are lower-case; nested-index documents are not generated here"})
}

var parseCache sync.Map

func parseText(text string) (vfrac.ParsedQuery, error) {
	all := append(append(trees2(c02Atoms), trees3([]refdb.Query{c02Atoms[1], c02Atoms[4], c02Atoms[8]})...),
		refdb.Or{L: c02Atoms[2], R: c02Atoms[8]}, refdb.And{L: refdb.Not{X: c02Atoms[3]}, R: c02Atoms[9]})
	for _, q := range all {
		if q.Render() == text {
			return vfrac.Parse(q)
		}
	}
	return vfrac.ParsedQuery{}, fmt.Errorf("query %q not in the generated set", text)
}

func parseAll(qs []refdb.Query) ([]vfrac.ParsedQuery, error) {
	res := make([]vfrac.ParsedQuery, 0, len(qs))
	seen := map[string]bool{}
	for _, q := range qs {
		pq, err := vfrac.Parse(q)
		if err != nil {
			return nil, err
		}
		if seen[pq.Text] {
			continue
		}
		seen[pq.Text] = true
		res = append(res, pq)
	}
	return res, nil
}

var _ = seq.DocsOrderAsc
