package hfrac

// C05 — results are independent of how documents are split over fractions and shards.
// (1) Searcher.SearchDocs over every set partition of a corpus into <=3 fractions (active/sealed,
//     every order of the fraction list (n=4 quick: 2 of 6, rotating), FractionsPerIteration 1..3, both orders, limits 0..n+1).
// (2) search.Ingestor.Search over in-process stores: 1-2 shards x 1-2 replicas, every assignment of
//     documents to shards, documents duplicated on two shards, offset/size paging.

import (
	"context"
	"fmt"
	"os"
	"sort"
	"strings"
	"testing"
	"time"

	"github.com/ozontech/seq-db/conf"
	"github.com/ozontech/seq-db/consts"
	"github.com/ozontech/seq-db/frac"
	"github.com/ozontech/seq-db/frac/processor"
	"github.com/ozontech/seq-db/fracmanager"
	"github.com/ozontech/seq-db/parser"
	pb "github.com/ozontech/seq-db/pkg/storeapi"
	"github.com/ozontech/seq-db/proxy/search"
	"github.com/ozontech/seq-db/proxy/stores"
	"github.com/ozontech/seq-db/querytracer"
	"github.com/ozontech/seq-db/seq"
	"github.com/ozontech/seq-db/storeapi"
	"github.com/ozontech/seq-db/zzverif/refdb"
	"github.com/ozontech/seq-db/zzverif/vfrac"
	"github.com/ozontech/seq-db/zzverif/vlib"
)

type c05Case struct {
	Level     string `json:"level"` // frac | proxy
	TS        []int  `json:"ts"`    // timestamp slot per document
	Part      []int  `json:"part"`  // block (fraction / shard) per document; -1 = on both shards (proxy)
	Sealed    []bool `json:"sealed,omitempty"`
	ListOrder []int  `json:"list_order,omitempty"`
	FPI       int    `json:"fpi,omitempty"`
	Shards    int    `json:"shards,omitempty"`
	Replicas  int    `json:"replicas,omitempty"`
	Query     string `json:"query"`
	Asc       bool   `json:"asc"`
	Limit     int    `json:"limit"`
	Offset    int    `json:"offset,omitempty"`
	Kind      string `json:"kind"` // ids | hist | agg:<name>
	NoTotal   bool   `json:"no_total,omitempty"`
}

// documents: token set by index (cycling through the templates), timestamps from the case
func c05Docs(ts []int) []refdb.Doc {
	specs := make([]vfrac.DocSpec, len(ts))
	for i, t := range ts {
		specs[i] = vfrac.DocSpec{T: i % 5, TS: t}
	}
	docs := vfrac.MakeDocs(specs, false)
	for i := range docs { // single-valued group / numeric field for aggregations
		docs[i].Toks = append(docs[i].Toks, refdb.Tok{F: "g", V: fmt.Sprintf("g%d", i%2)})
		if i%3 != 2 { // every third document has no numeric field: some fractions of a layout hold no value at all
			docs[i].Toks = append(docs[i].Toks, refdb.Tok{F: "v", V: fmt.Sprint(i + 1)})
		}
	}
	return docs
}

var c05Queries []vfrac.ParsedQuery

func init() {
	qs := []refdb.Query{
		refdb.All{}, c02Atoms[1], refdb.Not{X: c02Atoms[0]},
		refdb.Or{L: c02Atoms[2], R: c02Atoms[8]}, c02Atoms[5],
		refdb.And{L: refdb.Not{X: c02Atoms[3]}, R: c02Atoms[9]},
	}
	var err error
	if c05Queries, err = parseAll(qs); err != nil {
		panic(err)
	}
}

func c05Query(text string) vfrac.ParsedQuery {
	for _, q := range c05Queries {
		if q.Text == text {
			return q
		}
	}
	panic("unknown query " + text)
}

func wildcard(field string) *parser.Literal {
	return &parser.Literal{Field: field, Terms: []parser.Term{{Kind: parser.TermSymbol, Data: "*"}}}
}

var c05Aggs = map[string]processor.AggQuery{
	"count:g":      {Func: seq.AggFuncCount, GroupBy: wildcard("g")},
	"sum:v:g":      {Func: seq.AggFuncSum, Field: wildcard("v"), GroupBy: wildcard("g")},
	"quantile:v":   {Func: seq.AggFuncQuantile, Field: wildcard("v"), Quantiles: []float64{0.5}},
	"max:v:g:int2": {Func: seq.AggFuncMax, Field: wildcard("v"), GroupBy: wildcard("g"), Interval: 2},
}

func canonAggs(aggs []seq.AggregatableSamples) string {
	var b strings.Builder
	for _, a := range aggs {
		fmt.Fprintf(&b, "NE=%d{", a.NotExists)
		var keys []string
		m := map[string]*seq.SamplesContainer{}
		for bin, h := range a.SamplesByBin {
			k := fmt.Sprintf("%d|%s", bin.MID, bin.Token)
			keys = append(keys, k)
			m[k] = h
		}
		sort.Strings(keys)
		for _, k := range keys {
			h := m[k]
			s := append([]float64{}, h.Samples...)
			sort.Float64s(s)
			mn, mx := h.Min, h.Max
			if h.Total == 0 { // Min/Max are undefined without samples
				mn, mx = 0, 0
			}
			fmt.Fprintf(&b, "%s:(min=%v max=%v sum=%v total=%d ne=%d s=%v)", k, mn, mx, h.Sum, h.Total, h.NotExists, s)
		}
		b.WriteString("}")
	}
	return b.String()
}

func canonHist(h map[seq.MID]uint64) string {
	var keys []uint64
	for k, v := range h {
		if v != 0 {
			keys = append(keys, uint64(k))
		}
	}
	sort.Slice(keys, func(i, j int) bool { return keys[i] < keys[j] })
	var b strings.Builder
	for _, k := range keys {
		fmt.Fprintf(&b, "%d:%d ", k, h[seq.MID(k)])
	}
	return b.String()
}

func canonRefHist(h map[uint64]uint64) string {
	m := map[seq.MID]uint64{}
	for k, v := range h {
		m[seq.MID(k)] = v
	}
	return canonHist(m)
}

// partitions of n elements into at most k blocks (restricted growth strings)
func partitions(n, k int) [][]int {
	var res [][]int
	var rec func(cur []int, maxb int)
	rec = func(cur []int, maxb int) {
		if len(cur) == n {
			res = append(res, append([]int{}, cur...))
			return
		}
		for b := 0; b <= maxb+1 && b < k; b++ {
			rec(append(cur, b), max(maxb, b))
		}
	}
	rec(nil, -1)
	return res
}

func perms(n int) [][]int {
	if n == 1 {
		return [][]int{{0}}
	}
	var res [][]int
	for _, p := range perms(n - 1) {
		for i := 0; i <= len(p); i++ {
			q := append(append(append([]int{}, p[:i]...), n-1), p[i:]...)
			res = append(res, q)
		}
	}
	return res
}

// ---- (1) fraction level ----

type c05FracSet struct {
	docs  []refdb.Doc
	fracs []frac.Fraction
	close func()
}

func buildFracSet(env *vfrac.Env, ts, part []int, sealed []bool) (*c05FracSet, error) {
	docs := c05Docs(ts)
	nb := 0
	for _, p := range part {
		nb = max(nb, p+1)
	}
	fs := &c05FracSet{docs: docs}
	var closers []func()
	for b := 0; b < nb; b++ {
		var blk []refdb.Doc
		for i, p := range part {
			if p == b {
				blk = append(blk, docs[i])
			}
		}
		a := env.NewActive(env.NextBase(), &frac.Config{})
		if err := env.Append(a, blk); err != nil {
			return nil, err
		}
		if sealed[b] {
			s, err := env.Seal(a, frac.SealParams{IDsZstdLevel: 1, LIDsZstdLevel: 1, TokenListZstdLevel: 1, DocsPositionsZstdLevel: 1, TokenTableZstdLevel: 1, DocBlocksZstdLevel: 1}, nil)
			if err != nil {
				return nil, err
			}
			a.Release()
			fs.fracs = append(fs.fracs, s)
			closers = append(closers, s.Suicide)
		} else {
			fs.fracs = append(fs.fracs, a)
			closers = append(closers, a.Suicide)
		}
	}
	// an empty active fraction is always part of the list (fresh fraction after rotation)
	e := env.NewActive(env.NextBase(), &frac.Config{})
	fs.fracs = append(fs.fracs, e)
	closers = append(closers, e.Suicide)
	fs.close = func() {
		for _, c := range closers {
			c()
		}
	}
	return fs, nil
}

func c05FracRequest(r *vlib.Run, fs *c05FracSet, c c05Case) {
	r.Add("evaluations", 1)
	pq := c05Query(c.Query)
	list := make(fracmanager.List, 0, len(fs.fracs))
	for _, i := range c.ListOrder {
		list = append(list, fs.fracs[i])
	}
	list = append(list, fs.fracs[len(fs.fracs)-1]) // the empty one
	s := fracmanager.NewSearcher(2, fracmanager.SearcherCfg{FractionsPerIteration: c.FPI})
	p := vfrac.Params(pq, 0, vfrac.MaxMID, c.Asc, c.Limit, !c.NoTotal)
	var wantAgg string
	switch {
	case c.Kind == "hist":
		p.HistInterval = 2
	case strings.HasPrefix(c.Kind, "agg:"):
		aq := c05Aggs[c.Kind[4:]]
		p.AggQ = []processor.AggQuery{aq}
	}
	qpr, err := s.SearchDocs(context.Background(), list, p)
	sig := fmt.Sprintf("frac ts=%v part=%v sealed=%v order=%v fpi=%d q=%s asc=%v limit=%d kind=%s nototal=%v", c.TS, c.Part, c.Sealed, c.ListOrder, c.FPI, c.Query, c.Asc, c.Limit, c.Kind, c.NoTotal)
	if err != nil {
		r.Violation(sig+" error", c, err.Error())
		return
	}
	wantIDs, wantTotal := refdb.Search(fs.docs, pq.Ref, 0, vfrac.MaxMID, c.Asc, c.Limit)
	got := vfrac.RefIDs(qpr.IDs.IDs())
	if idsStr(got) != idsStr(wantIDs) || (!c.NoTotal && int(qpr.Total) != wantTotal) {
		r.Violation(sig, c, fmt.Sprintf("got [%s] total=%d want [%s] total=%d", idsStr(got), qpr.Total, idsStr(wantIDs), wantTotal))
		return
	}
	if c.Kind == "hist" {
		if g, w := canonHist(qpr.Histogram), canonRefHist(refdb.Histogram(fs.docs, pq.Ref, 0, vfrac.MaxMID, 2)); g != w {
			r.Violation(sig, c, fmt.Sprintf("histogram got [%s] want [%s]", g, w))
		}
	}
	if strings.HasPrefix(c.Kind, "agg:") {
		// reference: the same request on ONE fraction holding everything (built lazily per corpus)
		wantAgg = singleFracAgg(fs, pq, c)
		if g := canonAggs(qpr.Aggs); g != wantAgg {
			r.Violation(sig, c, fmt.Sprintf("aggregation got %s\nwant (single fraction) %s", g, wantAgg))
		}
	}
	if wantTotal > 0 && len(c.ListOrder) > 1 {
		r.Add("nontrivial_requests", 1)
	}
}

var singleEnv *vfrac.Env

func singleFracAgg(fs *c05FracSet, pq vfrac.ParsedQuery, c c05Case) string {
	a := singleEnv.NewActive(singleEnv.NextBase(), &frac.Config{})
	defer a.Suicide()
	if err := singleEnv.Append(a, fs.docs); err != nil {
		panic(err)
	}
	p := vfrac.Params(pq, 0, vfrac.MaxMID, c.Asc, c.Limit, true)
	p.AggQ = []processor.AggQuery{c05Aggs[c.Kind[4:]]}
	qpr, err := vfrac.Search(a, p)
	if err != nil {
		return "ERROR " + err.Error()
	}
	return canonAggs(qpr.Aggs)
}

// ---- (2) proxy level ----

type c05MP struct{}

func (c05MP) GetMapping() seq.Mapping { return vfrac.Mapping }

type c05Cluster struct {
	docs    []refdb.Doc
	ing     *search.Ingestor
	stores  []*storeapi.Store
	dirs    []string
	clients map[string]pb.StoreApiClient
}

func (cl *c05Cluster) clientFor(host string) pb.StoreApiClient { return cl.clients[host] }

func buildCluster(ts, part []int, shards, replicas int) *c05Cluster {
	return buildClusterDocs(c05Docs(ts), part, shards, replicas)
}

func buildClusterDocs(docs []refdb.Doc, part []int, shards, replicas int) *c05Cluster {
	conf.SkipFsync = true
	conf.IndexWorkers = 1
	conf.UseSeqQLByDefault = true
	cl := &c05Cluster{docs: docs}
	clients := map[string]pb.StoreApiClient{}
	var shardHosts [][]string
	for s := 0; s < shards; s++ {
		var hosts []string
		var blk []refdb.Doc
		for i, p := range part {
			if p == s || p == -1 {
				blk = append(blk, docs[i])
			}
		}
		for rp := 0; rp < replicas; rp++ {
			dir := vfrac.MkTmp("c05")
			st, err := storeapi.NewStore(context.Background(), storeapi.StoreConfig{
				FracManager: fracmanager.Config{DataDir: dir, FracSize: 100 * consts.MB, TotalSize: 1000 * consts.MB, CacheSize: 10 * consts.MB, MaintenanceDelay: time.Hour},
				API:         storeapi.APIConfig{StoreMode: storeapi.StoreModeCold, Search: storeapi.SearchConfig{WorkersCount: 2, FractionsPerIteration: 1}},
			}, c05MP{})
			if err != nil {
				panic(err)
			}
			c := storeapi.NewClient(st)
			// replicas hold the same bulk; the second replica gets it as two bulks in two fractions
			if len(blk) > 0 {
				if rp == 0 || len(blk) == 1 {
					db, mb := vfrac.BuildBulk(blk, 1)
					if _, err := c.Bulk(context.Background(), &pb.BulkRequest{Count: int64(len(blk)), Docs: db, Metas: mb}); err != nil {
						panic(err)
					}
					st.WaitIdle()
				} else {
					for _, sub := range [][]refdb.Doc{blk[:1], blk[1:]} {
						db, mb := vfrac.BuildBulk(sub, 1)
						if _, err := c.Bulk(context.Background(), &pb.BulkRequest{Count: int64(len(sub)), Docs: db, Metas: mb}); err != nil {
							panic(err)
						}
						st.WaitIdle()
						st.SealAll()
					}
				}
			}
			host := fmt.Sprintf("s%dr%d", s, rp)
			clients[host] = c
			hosts = append(hosts, host)
			cl.stores = append(cl.stores, st)
			cl.dirs = append(cl.dirs, dir)
		}
		shardHosts = append(shardHosts, hosts)
	}
	hot := &stores.Stores{Shards: shardHosts, Vers: make([]string, len(shardHosts))}
	empty := &stores.Stores{Shards: [][]string{}, Vers: []string{}}
	cl.clients = clients
	cl.ing = search.NewIngestor(search.Config{HotStores: hot, HotReadStores: empty, ReadStores: empty, WriteStores: empty, ShuffleReplicas: true}, clients)
	return cl
}

func (cl *c05Cluster) close() {
	for i, st := range cl.stores {
		for _, f := range st.FracManager.GetAllFracs() {
			f.Suicide()
		}
		os.RemoveAll(cl.dirs[i])
	}
}

func c05ProxyRequest(r *vlib.Run, cl *c05Cluster, c c05Case) {
	r.Add("evaluations", 1)
	pq := c05Query(c.Query)
	sr := &search.SearchRequest{Q: []byte(c.Query), Offset: c.Offset, Size: c.Limit, From: 0, To: seq.MID(vfrac.MaxMID), WithTotal: !c.NoTotal, Order: seq.DocsOrderDesc}
	if c.Asc {
		sr.Order = seq.DocsOrderAsc
	}
	if c.Kind == "hist" {
		sr.Interval = 2
	}
	if strings.HasPrefix(c.Kind, "agg:") {
		switch c.Kind[4:] {
		case "count:g":
			sr.AggQ = []search.AggQuery{{GroupBy: "g", Func: seq.AggFuncCount}}
		case "sum:v:g":
			sr.AggQ = []search.AggQuery{{Field: "v", GroupBy: "g", Func: seq.AggFuncSum}}
		}
	}
	qpr, _, _, err := cl.ing.Search(context.Background(), sr, querytracer.New(false, "verif"))
	sig := fmt.Sprintf("proxy ts=%v part=%v shards=%d replicas=%d q=%s asc=%v offset=%d size=%d kind=%s nototal=%v", c.TS, c.Part, c.Shards, c.Replicas, c.Query, c.Asc, c.Offset, c.Limit, c.Kind, c.NoTotal)
	if err != nil {
		r.Violation(sig+" error", c, err.Error())
		return
	}
	all, wantTotal := refdb.Search(cl.docs, pq.Ref, 0, vfrac.MaxMID, c.Asc, 1000)
	var want []refdb.ID
	for i := c.Offset; i < len(all) && i < c.Offset+c.Limit; i++ {
		want = append(want, all[i])
	}
	got := vfrac.RefIDs(qpr.IDs.IDs())
	if idsStr(got) != idsStr(want) {
		r.Violation(sig, c, fmt.Sprintf("got [%s] want [%s]", idsStr(got), idsStr(want)))
		return
	}
	dup := false
	for _, p := range c.Part {
		if p == -1 {
			dup = true
		}
	}
	if !dup { // a document stored on two shards is only promised to be LISTED once
		if !c.NoTotal && int(qpr.Total) != wantTotal {
			r.Violation(sig+" total", c, fmt.Sprintf("total got %d want %d", qpr.Total, wantTotal))
		}
		if c.Kind == "hist" {
			if g, w := canonHist(qpr.Histogram), canonRefHist(refdb.Histogram(cl.docs, pq.Ref, 0, vfrac.MaxMID, 2)); g != w {
				r.Violation(sig+" hist", c, fmt.Sprintf("histogram got [%s] want [%s]", g, w))
			}
		}
		if strings.HasPrefix(c.Kind, "agg:") {
			fs := &c05FracSet{docs: cl.docs}
			cc := c
			cc.Limit = 0
			if g, w := canonAggs(qpr.Aggs), singleFracAgg(fs, pq, cc); g != w {
				r.Violation(sig+" agg", c, fmt.Sprintf("aggregation got %s\nwant (single fraction) %s", g, w))
			}
		}
	}
	if len(want) > 0 && c.Shards > 1 {
		r.Add("nontrivial_requests", 1)
	}
}

func TestVerifC05(t *testing.T) {
	r := vlib.NewRun("C05")
	env := vfrac.NewEnv("c05")
	defer env.Close()
	singleEnv = vfrac.NewEnv("c05s")
	defer singleEnv.Close()
	var rc c05Case
	if r.LoadReplay(&rc) {
		if rc.Level == "frac" {
			fs, err := buildFracSet(env, rc.TS, rc.Part, rc.Sealed)
			if err != nil {
				t.Fatal(err)
			}
			c05FracRequest(r, fs, rc)
			fs.close()
		} else {
			cl := buildCluster(rc.TS, rc.Part, rc.Shards, rc.Replicas)
			c05ProxyRequest(r, cl, rc)
			cl.close()
		}
		r.Finish(t, "model_checking", "replay", nil, nil)
		return
	}
	// ---- (1) ----
	maxN := 4
	if r.Thorough() {
		maxN = 5
	}
	type fjob struct {
		ts, part []int
		sealed   []bool
	}
	var fjobs []fjob
	for n := 1; n <= maxN; n++ {
		var tss [][]int
		var rec func(cur []int)
		rec = func(cur []int) {
			if len(cur) == n {
				tss = append(tss, append([]int{}, cur...))
				return
			}
			for t := 0; t < 3; t++ {
				rec(append(cur, t))
			}
		}
		rec(nil)
		for ti, ts := range tss {
			for pi, part := range partitions(n, 3) {
				nb := 0
				for _, p := range part {
					nb = max(nb, p+1)
				}
				for m := 0; m < 1<<nb; m++ {
					// quick, n=4: sealed-mask alternates with (ti+pi) to halve the builds; all masks for n<=3
					if !r.Thorough() && n == 4 && nb > 1 && (m+ti+pi)%2 == 1 {
						continue
					}
					sealed := make([]bool, nb)
					for b := range sealed {
						sealed[b] = m&(1<<b) != 0
					}
					fjobs = append(fjobs, fjob{ts, part, sealed})
				}
			}
		}
	}
	kinds := []string{"ids", "hist", "agg:count:g", "agg:sum:v:g", "agg:quantile:v", "agg:max:v:g:int2"}
	vlib.Parallel(len(fjobs), 0, func(ji int) {
		if r.Expired() {
			return
		}
		j := fjobs[ji]
		fs, err := buildFracSet(env, j.ts, j.part, j.sealed)
		if err != nil {
			r.Violation(fmt.Sprintf("build ts=%v part=%v", j.ts, j.part), c05Case{Level: "frac", TS: j.ts, Part: j.part, Sealed: j.sealed}, err.Error())
			return
		}
		defer fs.close()
		r.Add("fraction_sets", 1)
		r.Distinct("nontrivial", fmt.Sprint("frac", j))
		nb := len(j.sealed)
		n := len(j.ts)
		for oi, lo := range perms(nb) {
			if !r.Thorough() && n == 4 && nb == 3 && oi%3 != ji%3 {
				continue // quick, n=4: two of the six list orders per fraction set, rotating
			}
			for fpi := 1; fpi <= 3; fpi++ {
				if fpi > nb && fpi > 1 {
					continue
				}
				for qi, pq := range c05Queries {
					for _, asc := range []bool{false, true} {
						for limit := 0; limit <= n+1; limit++ {
							c05FracRequest(r, fs, c05Case{Level: "frac", TS: j.ts, Part: j.part, Sealed: j.sealed, ListOrder: lo, FPI: fpi, Query: pq.Text, Asc: asc, Limit: limit, Kind: "ids"})
							// without total the searcher stops as soon as the limit is ensured (early-exit logic)
							c05FracRequest(r, fs, c05Case{Level: "frac", TS: j.ts, Part: j.part, Sealed: j.sealed, ListOrder: lo, FPI: fpi, Query: pq.Text, Asc: asc, Limit: limit, Kind: "ids", NoTotal: true})
						}
						// histogram / aggregations: one kind per (order, query) round-robin, limit 1
						k := kinds[1+(oi+qi+fpi)%(len(kinds)-1)]
						c05FracRequest(r, fs, c05Case{Level: "frac", TS: j.ts, Part: j.part, Sealed: j.sealed, ListOrder: lo, FPI: fpi, Query: pq.Text, Asc: asc, Limit: 1, Kind: k})
					}
				}
			}
		}
	})
	r.Sample(c05Case{Level: "frac", TS: []int{2, 0, 1, 0}, Part: []int{0, 1, 0, 2}, Sealed: []bool{true, false, true}, ListOrder: []int{2, 0, 1}, FPI: 1, Query: c05Queries[3].Text, Asc: true, Limit: 2, Kind: "ids"})
	// ---- (2) ----
	type pjob struct {
		ts, part         []int
		shards, replicas int
	}
	var pjobs []pjob
	pn := 3
	if r.Thorough() {
		pn = 4
	}
	tsPatterns := [][]int{{0, 0, 0, 0}, {0, 1, 2, 0}, {2, 1, 0, 1}, {1, 1, 0, 2}}
	for n := 1; n <= pn; n++ {
		for _, tsp := range tsPatterns {
			ts := tsp[:n]
			pjobs = append(pjobs, pjob{ts, make([]int, n), 1, 1}, pjob{ts, make([]int, n), 1, 2})
			// every assignment to 2 shards incl. "on both" (-1)
			var rec func(cur []int)
			rec = func(cur []int) {
				if len(cur) == n {
					for _, rep := range []int{1, 2} {
						pjobs = append(pjobs, pjob{ts, append([]int{}, cur...), 2, rep})
					}
					return
				}
				for _, p := range []int{0, 1, -1} {
					rec(append(cur, p))
				}
			}
			rec(nil)
		}
	}
	vlib.Parallel(len(pjobs), 8, func(ji int) {
		if r.Expired() {
			return
		}
		j := pjobs[ji]
		cl := buildCluster(j.ts, j.part, j.shards, j.replicas)
		defer cl.close()
		r.Add("clusters", 1)
		r.Distinct("nontrivial", fmt.Sprint("proxy", j))
		n := len(j.ts)
		for _, pq := range c05Queries[:4] {
			for _, asc := range []bool{false, true} {
				for off := 0; off <= n; off++ {
					for size := 0; size <= n-off+1; size++ {
						c05ProxyRequest(r, cl, c05Case{Level: "proxy", TS: j.ts, Part: j.part, Shards: j.shards, Replicas: j.replicas, Query: pq.Text, Asc: asc, Offset: off, Limit: size, Kind: "ids", NoTotal: (off+size)%2 == 1})
					}
				}
				for _, k := range []string{"hist", "agg:count:g", "agg:sum:v:g"} {
					c05ProxyRequest(r, cl, c05Case{Level: "proxy", TS: j.ts, Part: j.part, Shards: j.shards, Replicas: j.replicas, Query: pq.Text, Asc: asc, Offset: 0, Limit: 2, Kind: k})
				}
			}
		}
	})
	r.Sample(c05Case{Level: "proxy", TS: []int{0, 1, 2}, Part: []int{0, -1, 1}, Shards: 2, Replicas: 2, Query: c05Queries[1].Text, Offset: 1, Limit: 2, Kind: "ids"})
	ev := r.Get("evaluations")
	r.Finish(t, "model_checking",
		fmt.Sprintf("fraction level: corpora of n<=%d docs with every timestamp pattern over 3 slots, every set partition into <=3 fractions, every active/sealed mask (n=4 quick: alternating), every order of the fraction list (n=4 quick: 2 of 6, rotating), FractionsPerIteration 1..3, 6 queries, both orders, limits 0..n+1, histogram and 4 aggregation kinds round-robin, an empty active fraction always in the list; oracle = refdb (ids,total,histogram) and the single-fraction answer (aggregations). proxy level: n<=%d docs x 4 timestamp patterns, 1 shard x {1,2} replicas and every assignment of docs to 2 shards incl. stored on both, x {1,2} replicas (second replica holds the data as two sealed fractions), 4 queries x both orders x every (offset,size), histogram/aggregations; oracle = refdb page of the single ordered list", maxN, pn),
		map[string]any{
			"states":                        r.Get("fraction_sets") + r.Get("clusters"),
			"transitions":                   ev,
			"traces_validated_against_impl": ev,
		},
		[]string{"for documents stored on two shards only the ID listing is compared (totals/histograms/aggregations are not promised)", "group/field tokens are single-valued"})
}
