package hfrac

// C20 — the fields pipe returns a faithful projection of each stored document.
// Every JSON object from a small grammar (field names incl. dotted / unicode / empty, value types incl.
// nested, escapes, number notations, with and without insignificant whitespace) is stored in a real
// in-process store; every field list of <=3 names (present, absent, repeated) in allow and except mode
// and without filter is applied through the streaming GrpcV1.Fetch (FieldsFilter) and through
// search.Ingestor.Search with `| fields …` / `| fields except …`.

import (
	"bytes"
	"context"
	"encoding/json"
	"fmt"
	"io"
	"sort"
	"strings"
	"testing"

	"github.com/ozontech/seq-db/conf"
	"github.com/ozontech/seq-db/disk"
	pb "github.com/ozontech/seq-db/pkg/storeapi"
	"github.com/ozontech/seq-db/proxy/search"
	"github.com/ozontech/seq-db/querytracer"
	"github.com/ozontech/seq-db/seq"
	"github.com/ozontech/seq-db/zzverif/refdb"
	"github.com/ozontech/seq-db/zzverif/vfrac"
	"github.com/ozontech/seq-db/zzverif/vlib"
	"google.golang.org/grpc/metadata"
)

// decoded field names; c20Spell gives the raw spelling of the key in the stored document where it is
// not the plain json.Marshal form (a key written with escape sequences is the same field)
var c20Names = []string{"a", "b", "a.b", "é", "", "a", "é", `q"\k`}
var c20Spell = map[int]string{5: `"\u0061"`, 6: `"\u00e9"`}
var c20Values = []string{`1`, `-0.5e3`, `"s"`, `"q\"\\"`, `"é"`, `true`, `null`, `{}`, `{"x":1}`, `[1,{"y":2}]`, `""`}

type c20Doc struct {
	Names  []int `json:"names"`
	Values []int `json:"values"`
	WS     bool  `json:"ws"`
}

func (d c20Doc) body() string {
	var b strings.Builder
	sp := ""
	if d.WS {
		sp = " "
	}
	b.WriteString("{" + sp)
	for i := range d.Names {
		if i > 0 {
			b.WriteString("," + sp)
		}
		nb, _ := json.Marshal(c20Names[d.Names[i]])
		if sp, ok := c20Spell[d.Names[i]]; ok {
			nb = []byte(sp)
		}
		b.Write(nb)
		b.WriteString(sp + ":" + sp)
		b.WriteString(c20Values[d.Values[i]])
	}
	b.WriteString(sp + "}")
	return b.String()
}

type c20Filter struct {
	Fields []string `json:"fields"`
	Allow  bool     `json:"allow"`
	None   bool     `json:"none"`
}

type c20Case struct {
	Doc    c20Doc     `json:"doc"`
	Filter c20Filter  `json:"filter"`
	Via    string     `json:"via"`
	Prev   *c20Filter `json:"prev,omitempty"` // the filter of the request sent just before (request sequences)
}

func jsonEqual(a, b json.RawMessage) bool {
	var x, y any
	da := json.NewDecoder(bytes.NewReader(a))
	da.UseNumber()
	db := json.NewDecoder(bytes.NewReader(b))
	db.UseNumber()
	if da.Decode(&x) != nil || db.Decode(&y) != nil {
		return false
	}
	return deepNumEqual(x, y)
}

func deepNumEqual(x, y any) bool {
	switch xv := x.(type) {
	case json.Number:
		yv, ok := y.(json.Number)
		if !ok {
			return false
		}
		xf, _ := xv.Float64()
		yf, _ := yv.Float64()
		return xf == yf
	case map[string]any:
		yv, ok := y.(map[string]any)
		if !ok || len(xv) != len(yv) {
			return false
		}
		for k, v := range xv {
			w, ok := yv[k]
			if !ok || !deepNumEqual(v, w) {
				return false
			}
		}
		return true
	case []any:
		yv, ok := y.([]any)
		if !ok || len(xv) != len(yv) {
			return false
		}
		for i := range xv {
			if !deepNumEqual(xv[i], yv[i]) {
				return false
			}
		}
		return true
	default:
		return x == y
	}
}

// c20Check judges one returned document.
func c20Check(stored string, out []byte, f c20Filter) string {
	if f.None || len(f.Fields) == 0 {
		if string(out) != stored {
			return fmt.Sprintf("without a filter the bytes changed: %q", out)
		}
		return ""
	}
	var so, oo map[string]json.RawMessage
	if err := json.Unmarshal([]byte(stored), &so); err != nil {
		panic(err)
	}
	if err := json.Unmarshal(out, &oo); err != nil {
		return fmt.Sprintf("output is not a JSON object: %q (%v)", out, err)
	}
	listed := map[string]bool{}
	for _, n := range f.Fields {
		listed[n] = true
	}
	want := map[string]json.RawMessage{}
	for k, v := range so {
		if listed[k] == f.Allow {
			want[k] = v
		}
	}
	var wk, gk []string
	for k := range want {
		wk = append(wk, k)
	}
	for k := range oo {
		gk = append(gk, k)
	}
	sort.Strings(wk)
	sort.Strings(gk)
	if fmt.Sprint(wk) != fmt.Sprint(gk) {
		return fmt.Sprintf("key set %q, want %q (output %q)", gk, wk, out)
	}
	for k, v := range want {
		if !jsonEqual(v, oo[k]) {
			return fmt.Sprintf("value of %q changed: %s -> %s", k, v, oo[k])
		}
	}
	return ""
}

func TestVerifC20(t *testing.T) {
	r := vlib.NewRun("C20")
	// ---- documents ----
	var docs []c20Doc
	docs = append(docs, c20Doc{})
	vi := 0
	nn := len(c20Names)
	for a := 0; a < nn; a++ {
		for v := range c20Values {
			docs = append(docs, c20Doc{Names: []int{a}, Values: []int{v}, WS: v%2 == 1})
		}
		for b := 0; b < nn; b++ {
			if c20Names[b] == c20Names[a] {
				continue
			}
			for v := range c20Values {
				vi++
				docs = append(docs, c20Doc{Names: []int{a, b}, Values: []int{v, vi % len(c20Values)}, WS: vi%2 == 0})
			}
			for c := 0; c < nn; c++ {
				if c20Names[c] == c20Names[a] || c20Names[c] == c20Names[b] {
					continue
				}
				for v := 0; v < len(c20Values); v += 2 {
					vi++
					docs = append(docs, c20Doc{Names: []int{a, b, c}, Values: []int{v, vi % len(c20Values), (vi / 3) % len(c20Values)}, WS: vi%3 == 0})
				}
			}
		}
	}
	if !r.Thorough() {
		// quick: every 1- and 2-field document, every third 3-field document
		var th []c20Doc
		for i, d := range docs {
			if len(d.Names) < 3 || i%3 == 0 {
				th = append(th, d)
			}
		}
		docs = th
	}
	// ---- filters ----
	filters := []c20Filter{{None: true}}
	fnames := []string{"a", "b", "a.b", "zz"}
	var recF func(cur []string)
	recF = func(cur []string) {
		if len(cur) > 0 {
			filters = append(filters, c20Filter{Fields: append([]string{}, cur...), Allow: true}, c20Filter{Fields: append([]string{}, cur...), Allow: false})
		}
		if len(cur) == 3 {
			return
		}
		for _, n := range fnames {
			recF(append(cur, n))
		}
	}
	recF(nil)
	filters = append(filters, c20Filter{Fields: []string{"é"}, Allow: true}, c20Filter{Fields: []string{"é", ""}, Allow: false}, c20Filter{Fields: []string{""}, Allow: true},
		c20Filter{Fields: []string{"é"}, Allow: false}, c20Filter{Fields: []string{`q"\k`}, Allow: true}, c20Filter{Fields: []string{`q"\k`}, Allow: false}, c20Filter{Fields: []string{`q"\k`, "a"}, Allow: false})
	var rc c20Case
	replay := r.LoadReplay(&rc)
	if replay && rc.Via == "" { // an artefact of the proxy part of the check
		r.Finish(t, "model_checking", "replay", nil, nil)
		return
	}
	if replay {
		docs = []c20Doc{rc.Doc}
		filters = []c20Filter{rc.Filter}
	}
	// ---- store all documents in one in-process store (two fractions, one sealed) ----
	rdocs := make([]refdb.Doc, len(docs))
	for i, d := range docs {
		rdocs[i] = refdb.Doc{ID: refdb.ID{MID: uint64(vfrac.BaseMID + i%7), RID: uint64(100 + i)}, Body: d.body(), Toks: []refdb.Tok{{F: "k", V: "a"}}}
	}
	part := make([]int, len(docs))
	cl := buildClusterDocs(rdocs, part, 1, 1)
	defer cl.close()
	client := cl.clientFor("s0r0")
	ids := make([]string, len(rdocs))
	for i, d := range rdocs {
		ids[i] = vfrac.SeqID(d.ID).String()
	}
	// ---- via GrpcV1.Fetch ----
	vlib.Parallel(len(filters), 8, func(fi int) {
		f := filters[fi]
		req := &pb.FetchRequest{Ids: ids}
		if !f.None {
			req.FieldsFilter = &pb.FetchRequest_FieldsFilter{Fields: f.Fields, AllowList: f.Allow}
		}
		stream, err := client.Fetch(context.Background(), req)
		if err != nil {
			r.Violation(fmt.Sprintf("fetch error filter=%s", vlib.JSON(f)), c20Case{Filter: f, Via: "fetch"}, err.Error())
			return
		}
		for i := range rdocs {
			m, err := stream.Recv()
			if err != nil {
				r.Violation(fmt.Sprintf("fetch stream ended early filter=%s", vlib.JSON(f)), c20Case{Doc: docs[i], Filter: f, Via: "fetch"}, fmt.Sprint(err))
				return
			}
			r.Add("evaluations", 1)
			out := disk.DocBlock(m.Data).Payload()
			if v := c20Check(rdocs[i].Body, out, f); v != "" {
				r.Violation(fmt.Sprintf("fetch filter=%s doc=%s", vlib.JSON(f), rdocs[i].Body), c20Case{Doc: docs[i], Filter: f, Via: "fetch"}, fmt.Sprintf("stored %s\n%s", rdocs[i].Body, v))
			} else if !f.None {
				r.Distinct("nontrivial", vlib.JSON(f)+"|"+rdocs[i].Body)
			}
		}
		if _, err := stream.Recv(); err != io.EOF {
			r.Violation(fmt.Sprintf("fetch stream has extra entries filter=%s", vlib.JSON(f)), c20Case{Filter: f, Via: "fetch"}, fmt.Sprint(err))
		}
	})
	// ---- request sizes: the projection does not depend on how many IDs one request carries (1, 2, all) ----
	if !replay {
		for fi, f := range filters {
			if f.None {
				continue
			}
			for k := 0; k < 6; k++ {
				di := (fi*7 + k*len(rdocs)/6) % len(rdocs)
				for _, n := range []int{1, 2} {
					req := &pb.FetchRequest{FieldsFilter: &pb.FetchRequest_FieldsFilter{Fields: f.Fields, AllowList: f.Allow}}
					var idx []int
					for j := 0; j < n; j++ {
						idx = append(idx, (di+j)%len(rdocs))
						req.Ids = append(req.Ids, ids[(di+j)%len(rdocs)])
					}
					stream, err := client.Fetch(context.Background(), req)
					if err != nil {
						r.Violation(fmt.Sprintf("fetch error filter=%s ids=%d", vlib.JSON(f), n), c20Case{Filter: f, Via: "fetch"}, err.Error())
						continue
					}
					for _, i := range idx {
						m, err := stream.Recv()
						if err != nil {
							r.Violation(fmt.Sprintf("fetch stream ended early filter=%s ids=%d", vlib.JSON(f), n), c20Case{Doc: docs[i], Filter: f, Via: "fetch"}, fmt.Sprint(err))
							break
						}
						r.Add("evaluations", 1)
						r.Add("small_request_evaluations", 1)
						if v := c20Check(rdocs[i].Body, disk.DocBlock(m.Data).Payload(), f); v != "" {
							r.Violation(fmt.Sprintf("fetch of %d id(s) filter=%s doc=%s", n, vlib.JSON(f), rdocs[i].Body), c20Case{Doc: docs[i], Filter: f, Via: "fetch"}, fmt.Sprintf("stored %s\n%s", rdocs[i].Body, v))
						}
					}
				}
			}
		}
	}
	// ---- request sequences: the answer does not depend on the request served before (pooled filter state).
	// Every ordered pair over a reduced filter set that includes long lists, sequentially on one goroutine.
	long9 := []string{"a", "b", "a.b", "zz", "é", "", `q"\k`, "y1", "y2"}
	long12 := []string{"b", "zz", "y1", "y2", "y3", "y4", "y5", "y6", "y7", "y8", "y9", "y10"}
	seqF := []c20Filter{{None: true}, {Fields: []string{"a"}, Allow: true}, {Fields: []string{"a"}, Allow: false}, {Fields: []string{"b", "zz"}, Allow: true},
		{Fields: []string{"a.b", "b"}, Allow: false}, {Fields: long9, Allow: true}, {Fields: long9, Allow: false}, {Fields: long12, Allow: true}, {Fields: long12, Allow: false}, {Fields: []string{"é"}, Allow: true}}
	if replay && rc.Prev != nil {
		seqF = []c20Filter{*rc.Prev, rc.Filter}
	}
	var sub []int
	for i := 0; i < len(rdocs); i += max(1, len(rdocs)/16) {
		sub = append(sub, i)
	}
	fetchSub := func(f c20Filter) ([][]byte, error) {
		req := &pb.FetchRequest{}
		for _, i := range sub {
			req.Ids = append(req.Ids, ids[i])
		}
		if !f.None {
			req.FieldsFilter = &pb.FetchRequest_FieldsFilter{Fields: f.Fields, AllowList: f.Allow}
		}
		stream, err := client.Fetch(context.Background(), req)
		if err != nil {
			return nil, err
		}
		var out [][]byte
		for range sub {
			m, err := stream.Recv()
			if err != nil {
				return nil, err
			}
			out = append(out, append([]byte{}, disk.DocBlock(m.Data).Payload()...))
		}
		return out, nil
	}
	if !replay || rc.Prev != nil {
		for i1 := range seqF {
			for i2 := range seqF {
				f1, f2 := seqF[i1], seqF[i2]
				if _, err := fetchSub(f1); err != nil {
					r.Violation(fmt.Sprintf("fetch error filter=%s", vlib.JSON(f1)), c20Case{Filter: f1, Via: "fetch"}, err.Error())
					continue
				}
				out, err := fetchSub(f2)
				if err != nil {
					r.Violation(fmt.Sprintf("fetch error filter=%s", vlib.JSON(f2)), c20Case{Filter: f2, Via: "fetch"}, err.Error())
					continue
				}
				for j, di := range sub {
					r.Add("evaluations", 1)
					r.Add("sequence_evaluations", 1)
					if v := c20Check(rdocs[di].Body, out[j], f2); v != "" {
						r.Violation(fmt.Sprintf("fetch after a request with filter=%s: filter=%s doc=%s", vlib.JSON(f1), vlib.JSON(f2), rdocs[di].Body), c20Case{Doc: docs[di], Filter: f2, Via: "fetch-seq", Prev: &f1}, fmt.Sprintf("stored %s\n%s", rdocs[di].Body, v))
					}
				}
			}
		}
	}
	// ---- via the proxy: `<query> | fields …` ----
	// the request context rotates between: bare (in-process call), gRPC metadata with the header use-seq-ql: true,
	// and gRPC metadata WITHOUT that header while SeqQL is the configured default language
	ctxMode := 0
	plain := func(q string) ([]seq.ID, [][]byte, error) {
		sr := &search.SearchRequest{Q: []byte(q), Size: len(rdocs) + 5, From: 0, To: seq.MID(vfrac.MaxMID), ShouldFetch: true, Order: seq.DocsOrderDesc}
		ctx := context.Background()
		ctxMode++
		switch ctxMode % 3 {
		case 1:
			ctx = metadata.NewIncomingContext(ctx, metadata.Pairs("use-seq-ql", "true", "x-client", "verif"))
		case 2:
			old := conf.UseSeqQLByDefault
			conf.UseSeqQLByDefault = true
			defer func() { conf.UseSeqQLByDefault = old }()
			ctx = metadata.NewIncomingContext(ctx, metadata.Pairs("x-client", "verif"))
		}
		qpr, stream, _, err := cl.ing.Search(ctx, sr, querytracer.New(false, "verif"))
		if err != nil {
			return nil, nil, err
		}
		var out [][]byte
		for {
			d, err := stream.Next()
			if err != nil {
				break
			}
			out = append(out, append([]byte{}, d.Data...))
		}
		return qpr.IDs.IDs(), out, nil
	}
	baseIDs, baseDocs, err := plain(`k:a`)
	if err != nil {
		t.Fatal(err)
	}
	byID := map[seq.ID]int{}
	for i, d := range rdocs {
		byID[vfrac.SeqID(d.ID)] = i
	}
	if len(baseIDs) != len(rdocs) || len(baseDocs) != len(rdocs) {
		r.Violation("proxy search without pipe incomplete", c20Case{Via: "proxy"}, fmt.Sprintf("ids=%d docs=%d want %d", len(baseIDs), len(baseDocs), len(rdocs)))
	}
	quoteName := func(n string) string { b, _ := json.Marshal(n); return string(b) }
	pf := filters
	if !r.Thorough() && !replay {
		pf = nil
		for i, f := range filters {
			if i%5 == 0 {
				pf = append(pf, f)
			}
		}
	}
	for pfi, f := range pf {
		q := "k:a"
		if !f.None {
			var ns []string
			for _, n := range f.Fields {
				ns = append(ns, quoteName(n))
			}
			// SeqQL keywords are case-insensitive: the spelling of the pipe rotates with the filter index
			kw := [][2]string{{"fields", "except"}, {"FIELDS", "EXCEPT"}, {"Fields", "Except"}, {"fields", "EXCEPT"}}[pfi%4]
			q += " | " + kw[0] + " "
			if !f.Allow {
				q += kw[1] + " "
			}
			q += strings.Join(ns, ", ")
		}
		idsGot, docsGot, err := plain(q)
		if err != nil {
			r.Violation(fmt.Sprintf("proxy search error q=%s", q), c20Case{Filter: f, Via: "proxy"}, err.Error())
			continue
		}
		if fmt.Sprint(idsGot) != fmt.Sprint(baseIDs) {
			r.Violation(fmt.Sprintf("proxy: the pipe changed the set/order of documents q=%s", q), c20Case{Filter: f, Via: "proxy"}, fmt.Sprintf("%d ids vs %d", len(idsGot), len(baseIDs)))
			continue
		}
		for i, id := range idsGot {
			r.Add("evaluations", 1)
			di := byID[id]
			if i >= len(docsGot) {
				r.Violation(fmt.Sprintf("proxy: missing document q=%s", q), c20Case{Doc: docs[di], Filter: f, Via: "proxy"}, fmt.Sprintf("docs %d ids %d", len(docsGot), len(idsGot)))
				break
			}
			if v := c20Check(rdocs[di].Body, docsGot[i], f); v != "" {
				r.Violation(fmt.Sprintf("proxy filter=%s doc=%s", vlib.JSON(f), rdocs[di].Body), c20Case{Doc: docs[di], Filter: f, Via: "proxy"}, fmt.Sprintf("query %s stored %s\n%s", q, rdocs[di].Body, v))
			}
		}
	}
	r.Sample(c20Case{Doc: docs[len(docs)/2], Filter: filters[len(filters)/2], Via: "fetch"})
	ev := r.Get("evaluations")
	r.Finish(t, "model_checking",
		fmt.Sprintf("%d stored JSON objects from the grammar names{a,b,a.b,é,\"\",a spelled \\u0061,é spelled \\u00e9,q\"\\k} x values{1,-0.5e3,\"s\",escaped string,\"é\",true,null,{},{\"x\":1},[1,{\"y\":2}],\"\"} with 0..3 fields (all 1- and 2-field name sequences, 3-field ones thinned in quick), with and without insignificant whitespace; %d field filters = every list of <=3 names over {a,b,a.b,zz} incl. repeats in allow and except mode, no filter, and lists with é / empty name / a name with quote and backslash; every (document, filter) through the streaming GrpcV1.Fetch of an in-process store; every filter again with requests of 1 and 2 IDs (6 documents each); every ordered pair of requests over 10 filters incl. lists of 9 and 12 names, sequentially (the answer must not depend on the request served before); every filter (quick: every 5th) again through search.Ingestor.Search with a fields pipe (keyword spelled fields / FIELDS / Fields in rotation; request context bare / with the use-seq-ql header / header-less with SeqQL as the configured default, in rotation) (ID sequence must equal the un-piped search). Oracle: output is a JSON object with exactly the expected key set, every kept value JSON-equal (numbers numerically), no filter => identical bytes", len(docs), len(filters)),
		map[string]any{
			"states":                        len(docs) * len(filters),
			"transitions":                   ev,
			"traces_validated_against_impl": ev,
		},
		[]string{"stored documents have distinct top-level names", "JSON equality is judged by encoding/json with UseNumber"})
}
