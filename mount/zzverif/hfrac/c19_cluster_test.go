package hfrac

// C19 (cluster part) — a finished asynchronous search fetched through the real proxy search layer over real
// in-process stores equals the synchronous search of the same request through the same layer: IDs, histogram and
// the AGGREGATED result (the proxy derives the aggregation arguments of a fetch from what the stores echo).
// Enumerated: 2 layouts (2 shards x 1 replica, 1 shard x 2 replicas) x 2 queries x 2 orders x 8 aggregation
// requests (count / sum / max / quantile, with and without group-by, with and without interval; some documents
// lack the group-by field, some the numeric field) x histogram on/off.

import (
	"context"
	"fmt"
	"sort"
	"strings"
	"testing"
	"time"

	"github.com/ozontech/seq-db/proxy/search"
	"github.com/ozontech/seq-db/querytracer"
	"github.com/ozontech/seq-db/seq"
	"github.com/ozontech/seq-db/zzverif/refdb"
	"github.com/ozontech/seq-db/zzverif/vfrac"
	"github.com/ozontech/seq-db/zzverif/vlib"
)

type c19cCase struct {
	Layout int    `json:"c19c_layout"`
	Query  string `json:"query"`
	Asc    bool   `json:"asc"`
	Agg    int    `json:"agg"`
	Hist   int    `json:"hist"`
}

var c19cAggs = []search.AggQuery{
	{GroupBy: "g", Func: seq.AggFuncCount},
	{GroupBy: "g", Func: seq.AggFuncCount, Interval: 2},
	{Field: "v", GroupBy: "g", Func: seq.AggFuncSum},
	{Field: "v", GroupBy: "g", Func: seq.AggFuncSum, Interval: 2},
	{Field: "v", Func: seq.AggFuncMax, Interval: 3},
	{Field: "v", Func: seq.AggFuncQuantile, Quantiles: []float64{0.5, 0.9}},
	{Field: "v", GroupBy: "g", Func: seq.AggFuncAvg, Interval: 2},
	{Field: "v", Func: seq.AggFuncMin},
}

func c19cDocs() []refdb.Doc {
	var docs []refdb.Doc
	for i := 0; i < 7; i++ {
		toks := []refdb.Tok{{F: "k", V: []string{"a", "ab", "b"}[i%3]}}
		if i%3 != 1 { // every third document has no group-by field
			toks = append(toks, refdb.Tok{F: "g", V: fmt.Sprintf("g%d", i%2)})
		}
		if i%4 != 2 { // some have no numeric field
			toks = append(toks, refdb.Tok{F: "v", V: fmt.Sprint(i + 1)})
		}
		docs = append(docs, refdb.Doc{ID: refdb.ID{MID: uint64(vfrac.BaseMID + i), RID: uint64(10 + i)}, Body: fmt.Sprintf(`{"i":%d}`, i), Toks: vfrac.WithExists(toks)})
	}
	return docs
}

func c19cCanonResult(res []seq.AggregationResult) string {
	var b strings.Builder
	for _, a := range res {
		var bs []string
		for _, k := range a.Buckets {
			bs = append(bs, fmt.Sprintf("%s@%d=%v q=%v ne=%d", k.Name, k.MID, k.Value, k.Quantiles, k.NotExists))
		}
		sort.Strings(bs)
		fmt.Fprintf(&b, "NE=%d[%s] ", a.NotExists, strings.Join(bs, "; "))
	}
	return b.String()
}

func c19cRun(r *vlib.Run, cl *c05Cluster, c c19cCase) {
	r.Add("evaluations", 1)
	sig := fmt.Sprintf("cluster layout=%d q=%s asc=%v agg=%d hist=%d", c.Layout, c.Query, c.Asc, c.Agg, c.Hist)
	order := seq.DocsOrderDesc
	if c.Asc {
		order = seq.DocsOrderAsc
	}
	aq := c19cAggs[c.Agg]
	args := []seq.AggregateArgs{{Func: aq.Func, Quantiles: aq.Quantiles, SkipWithoutTimestamp: aq.Interval > 0}} // as grpcV1.ComplexSearch does
	sr := &search.SearchRequest{Q: []byte(c.Query), Size: 100, From: 0, To: seq.MID(vfrac.MaxMID), Interval: seq.MID(c.Hist), AggQ: []search.AggQuery{aq}, Order: order}
	sq, _, _, err := cl.ing.Search(context.Background(), sr, querytracer.New(false, "verif"))
	if err != nil {
		r.Violation(sig+": sync search error", c, err.Error())
		return
	}
	want := fmt.Sprintf("ids=%s hist=%s aggs=%s", idsStr(vfrac.RefIDs(sq.IDs.IDs())), canonHist(sq.Histogram), c19cCanonResult(sq.Aggregate(args)))
	start, err := cl.ing.StartAsyncSearch(context.Background(), search.AsyncRequest{Query: c.Query, From: time.UnixMilli(0), To: time.UnixMilli(int64(vfrac.MaxMID)), Order: order,
		Aggregations: []search.AggQuery{aq}, HistogramInterval: seq.MID(c.Hist)})
	if err != nil {
		r.Violation(sig+": async start error", c, err.Error())
		return
	}
	var got search.FetchAsyncSearchResultResponse
	deadline := time.Now().Add(30 * time.Second)
	for {
		got, err = cl.ing.FetchAsyncSearchResult(context.Background(), search.FetchAsyncSearchResultRequest{ID: start.ID, Size: 100})
		if err != nil || got.Done || time.Now().After(deadline) {
			break
		}
		time.Sleep(2 * time.Millisecond)
	}
	switch {
	case err != nil:
		r.Violation(sig+": async fetch error", c, err.Error())
	case !got.Done:
		r.Cap("an async search through the proxy did not report done within 30 s")
	default:
		g := fmt.Sprintf("ids=%s hist=%s aggs=%s", idsStr(vfrac.RefIDs(got.QPR.IDs.IDs())), canonHist(got.QPR.Histogram), c19cCanonResult(got.AggResult))
		if g != want {
			r.Violation(sig+": finished async search differs from the synchronous search", c, fmt.Sprintf("async %s\nsync  %s", g, want))
		}
		r.Distinct("nontrivial", sig)
		r.Distinct("answers", want)
	}
}

func c19cCluster(layout int) *c05Cluster {
	docs := c19cDocs()
	part := make([]int, len(docs))
	if layout == 0 {
		for i := range part {
			part[i] = i % 2
		}
		return buildClusterDocs(docs, part, 2, 1)
	}
	return buildClusterDocs(docs, part, 1, 2)
}

func TestVerifC19Cluster(t *testing.T) {
	r := vlib.NewRun("C19")
	var rc c19cCase
	if r.LoadReplay(&rc) {
		if rc.Query != "" && rc.Agg < len(c19cAggs) {
			cl := c19cCluster(rc.Layout)
			c19cRun(r, cl, rc)
			cl.close()
		}
		r.Finish(t, "model_checking", "replay", nil, nil)
		return
	}
	for layout := 0; layout < 2; layout++ {
		cl := c19cCluster(layout)
		for _, q := range []string{"*", `k:"a*"`} {
			for _, asc := range []bool{false, true} {
				for ai := range c19cAggs {
					for _, h := range []int{0, 2} {
						c19cRun(r, cl, c19cCase{Layout: layout, Query: q, Asc: asc, Agg: ai, Hist: h})
					}
				}
			}
		}
		cl.close()
	}
	r.Sample(c19cCase{Layout: 0, Query: "*", Agg: 1, Hist: 2})
	ev := r.Get("evaluations")
	r.Finish(t, "model_checking",
		"cluster part of C19: the real search.Ingestor over real in-process stores, 2 layouts (2 shards x 1 replica, 1 shard x 2 replicas with different fraction layouts) x 2 queries x 2 orders x 8 aggregation requests (with / without group-by and interval; documents without the group-by or the numeric field) x histogram on/off: StartAsyncSearch + FetchAsyncSearchResult at Done vs Search + Aggregate as the proxy API does it - IDs, histogram and aggregated buckets",
		map[string]any{"states": ev, "transitions": ev, "traces_validated_against_impl": ev},
		[]string{"polling an async search waits up to 30 s of wall clock; a search that is not done by then is reported as not explored, never as a violation"})
}
