package hfrac

// C17 — re-delivering a bulk does not duplicate documents.
// ID universe {1..4}; a bulk is any ordered subset of <=3 distinct IDs; every history of <=3 bulks is
// ingested into one active fraction (variant: the first bulk lands in an earlier, sealed fraction),
// judged on the active fraction, after sealing and after reopening from files.

import (
	"context"
	"fmt"
	"testing"

	"github.com/ozontech/seq-db/frac"
	"github.com/ozontech/seq-db/frac/processor"
	"github.com/ozontech/seq-db/fracmanager"
	"github.com/ozontech/seq-db/seq"
	"github.com/ozontech/seq-db/zzverif/refdb"
	"github.com/ozontech/seq-db/zzverif/vfrac"
	"github.com/ozontech/seq-db/zzverif/vlib"
)

// document content is a function of the ID (a retry re-sends the same bytes)
func c17Doc(i int) refdb.Doc {
	toks := [][]refdb.Tok{
		nil,
		{{F: "s", V: "x"}, {F: "g", V: "g1"}, {F: "v", V: "1"}},
		{{F: "s", V: "x"}, {F: "p", V: "2"}, {F: "g", V: "g1"}, {F: "v", V: "2"}},
		{{F: "s", V: "x"}, {F: "p", V: "3"}, {F: "q", V: "3"}, {F: "g", V: "g2"}, {F: "v", V: "4"}},
		{{F: "p", V: "4"}, {F: "v", V: "8"}},
	}[i]
	return refdb.Doc{ID: refdb.ID{MID: uint64(vfrac.BaseMID + i/2), RID: uint64(i)}, Body: fmt.Sprintf(`{"id":%d,"pad":"%s"}`, i, pad(i*5)), Toks: vfrac.WithExists(toks)}
}

func pad(n int) string {
	b := make([]byte, n)
	for i := range b {
		b[i] = 'z'
	}
	return string(b)
}

type c17Case struct {
	History [][]int `json:"history"`
	Rotate  bool    `json:"rotate"` // first bulk goes to an earlier fraction which is sealed
	Rotate2 bool    `json:"rotate2,omitempty"` // (with Rotate) the second bulk goes to its own sealed fraction as well: three fractions
	Stage   string  `json:"stage,omitempty"`
	Check   string  `json:"check,omitempty"`
}

var c17Queries []vfrac.ParsedQuery

func init() {
	vfrac.Mapping["s"] = vfrac.Mapping["k"]
	vfrac.Mapping["p"] = vfrac.Mapping["k"]
	vfrac.Mapping["q"] = vfrac.Mapping["k"]
	var err error
	c17Queries, err = parseAll([]refdb.Query{
		refdb.All{}, refdb.Lit{Field: "s", Pattern: "x"}, refdb.Lit{Field: "p", Pattern: "3"},
		refdb.Not{X: refdb.Lit{Field: "s", Pattern: "x"}}, refdb.Lit{Field: "_exists_", Pattern: "q"},
		refdb.And{L: refdb.Lit{Field: "s", Pattern: "x"}, R: refdb.Not{X: refdb.Lit{Field: "p", Pattern: "2"}}},
	})
	if err != nil {
		panic(err)
	}
}

// judgeFrac checks one fraction (or list) holding `docs` (deduplicated expectation).
func c17Judge(r *vlib.Run, c c17Case, stage string, fracs []frac.Fraction, docs []refdb.Doc, sameFraction bool) {
	viol := func(check, detail string) {
		cc := c
		cc.Stage, cc.Check = stage, check
		r.Violation(fmt.Sprintf("history=%v rotate=%v/%v stage=%s check=%s", c.History, c.Rotate, c.Rotate2, stage, check), cc, detail)
	}
	searcher := fracmanager.NewSearcher(2, fracmanager.SearcherCfg{FractionsPerIteration: 1})
	for _, pq := range c17Queries {
		for _, asc := range []bool{false, true} {
			r.Add("evaluations", 1)
			p := vfrac.Params(pq, 0, vfrac.MaxMID, asc, 100, true)
			p.HistInterval = 1
			p.AggQ = []processor.AggQuery{{Func: seq.AggFuncCount, GroupBy: wildcard("g")}, {Func: seq.AggFuncSum, Field: wildcard("v")}}
			qpr, err := searcher.SearchDocs(context.Background(), fracs, p)
			if err != nil {
				viol("search-error "+pq.Text, err.Error())
				continue
			}
			wantIDs, wantTotal := refdb.Search(docs, pq.Ref, 0, vfrac.MaxMID, asc, 100)
			got := vfrac.RefIDs(qpr.IDs.IDs())
			if idsStr(got) != idsStr(wantIDs) {
				viol("ids "+pq.Text, fmt.Sprintf("got [%s] want [%s]", idsStr(got), idsStr(wantIDs)))
			}
			if !sameFraction {
				continue // across fractions only the listing (and fetch) is promised
			}
			if int(qpr.Total) != wantTotal {
				viol("total "+pq.Text, fmt.Sprintf("got %d want %d", qpr.Total, wantTotal))
			}
			if g, w := canonHist(qpr.Histogram), canonRefHist(refdb.Histogram(docs, pq.Ref, 0, vfrac.MaxMID, 1)); g != w {
				viol("histogram "+pq.Text, fmt.Sprintf("got [%s] want [%s]", g, w))
			}
			m := refdb.Matching(docs, pq.Ref, 0, vfrac.MaxMID)
			res := qpr.Aggregate([]seq.AggregateArgs{{Func: seq.AggFuncCount}, {Func: seq.AggFuncSum}})
			if g, w := canonRealAgg(res[0]), refdb.Aggregate(m, refdb.AggSpec{Func: "count", GroupBy: "g"}).Canon(); g != w {
				viol("count-agg "+pq.Text, fmt.Sprintf("got %s want %s", g, w))
			}
			if g, w := canonRealAgg(res[1]), refdb.Aggregate(m, refdb.AggSpec{Func: "sum", Field: "v"}).Canon(); g != w {
				viol("sum-agg "+pq.Text, fmt.Sprintf("got %s want %s", g, w))
			}
		}
	}
	// fetch: every document of the universe by ID (absent ones must be empty)
	var src []seq.IDSource
	want := map[refdb.ID]string{}
	for _, d := range docs {
		want[d.ID] = d.Body
	}
	for i := 1; i <= 4; i++ {
		src = append(src, seq.IDSource{ID: vfrac.SeqID(c17Doc(i).ID)})
	}
	for _, workers := range []int{2, 1} { // fewer fetch workers than fractions: the fractions are read one after the other
		r.Add("evaluations", 1)
		res, err := fracmanager.NewFetcher(workers).FetchDocs(context.Background(), fracs, src)
		if err != nil {
			viol("fetch-error", err.Error())
		} else {
			for i, b := range res {
				if string(b) != want[c17Doc(i+1).ID] {
					viol(fmt.Sprintf("fetch id=%d workers=%d", i+1, workers), fmt.Sprintf("got %q want %q", b, want[c17Doc(i+1).ID]))
				}
			}
		}
	}
	if sameFraction {
		if dt := fracs[0].Info().DocsTotal; int(dt) != len(docs) {
			viol("docs-total", fmt.Sprintf("Info.DocsTotal=%d, distinct documents=%d", dt, len(docs)))
		}
	}
}

func c17Run(r *vlib.Run, env *vfrac.Env, c c17Case) {
	cfg := &frac.Config{}
	var all []refdb.Doc
	var list []frac.Fraction
	var cleanup []func()
	hist := c.History
	sameFraction := true
	if c.Rotate {
		// the first bulk lands in a fraction that is then sealed; the repeats go to the next fraction
		sameFraction = false
		a0 := env.NewActive(env.NextBase(), cfg)
		var blk []refdb.Doc
		for _, i := range hist[0] {
			blk = append(blk, c17Doc(i))
		}
		if err := env.Append(a0, blk); err != nil {
			panic(err)
		}
		all = append(all, blk...)
		s0, err := env.Seal(a0, frac.SealParams{IDsZstdLevel: 1, LIDsZstdLevel: 1, TokenListZstdLevel: 1, DocsPositionsZstdLevel: 1, TokenTableZstdLevel: 1, DocBlocksZstdLevel: 1}, nil)
		if err != nil {
			panic(err)
		}
		a0.Release()
		list = append(list, s0)
		cleanup = append(cleanup, s0.Suicide)
		hist = hist[1:]
		if c.Rotate2 && len(hist) > 1 {
			a1 := env.NewActive(env.NextBase(), cfg)
			var blk1 []refdb.Doc
			for _, i := range hist[0] {
				blk1 = append(blk1, c17Doc(i))
			}
			if err := env.Append(a1, blk1); err != nil {
				panic(err)
			}
			all = append(all, blk1...)
			s1, err := env.Seal(a1, frac.SealParams{IDsZstdLevel: 1, LIDsZstdLevel: 1, TokenListZstdLevel: 1, DocsPositionsZstdLevel: 1, TokenTableZstdLevel: 1, DocBlocksZstdLevel: 1}, nil)
			if err != nil {
				panic(err)
			}
			a1.Release()
			list = append(list, s1)
			cleanup = append(cleanup, s1.Suicide)
			hist = hist[1:]
		}
	}
	a := env.NewActive(env.NextBase(), cfg)
	for _, b := range hist {
		var blk []refdb.Doc
		for _, i := range b {
			blk = append(blk, c17Doc(i))
		}
		if err := env.Append(a, blk); err != nil {
			panic(err)
		}
		all = append(all, blk...)
	}
	docs := refdb.Dedup(all)
	if len(hist) > 0 {
		list = append(list, a)
	}
	c17Judge(r, c, "active", list, docs, sameFraction)
	if len(hist) == 0 {
		a.Suicide()
	} else {
		s, err := env.Seal(a, frac.SealParams{IDsZstdLevel: 1, LIDsZstdLevel: 1, TokenListZstdLevel: 1, DocsPositionsZstdLevel: 1, TokenTableZstdLevel: 1, DocBlocksZstdLevel: 1}, nil)
		if err != nil {
			r.Violation(fmt.Sprintf("history=%v rotate=%v seal-error", c.History, c.Rotate), c, err.Error())
			a.Suicide()
		} else {
			a.Release()
			list[len(list)-1] = s
			c17Judge(r, c, "sealed", list, docs, sameFraction)
			re := env.Reopen(a.BaseFileName, nil, cfg, nil)
			list[len(list)-1] = re
			c17Judge(r, c, "reopened", list, docs, sameFraction)
			re.Suicide()
			s.Suicide()
		}
	}
	for _, f := range cleanup {
		f()
	}
	r.Add("histories", 1)
	dups := len(all) - len(docs)
	if dups > 0 {
		r.Distinct("nontrivial", fmt.Sprint(c.History, c.Rotate, c.Rotate2))
	}
}

// ---- nested documents: differential oracle ----
// A document with a nested field is indexed as several metas under one ID (parent + one per array element).
// refdb does not model per-meta totals, so these histories are judged differentially: the fraction fed with
// the history (repeats included) must answer every request exactly like a fraction fed with every document
// once, in the bulk of its first appearance.

func c17NDoc(i int) refdb.Doc {
	d := c17Doc(map[int]int{1: 1, 2: 2, 5: 3, 6: 4}[i])
	if i >= 5 { // 5 and 6 are nested documents: two array elements each
		d.ID.RID = uint64(i + 10)
		d.Body = fmt.Sprintf(`{"id":%d,"n":[{"q":"e1"},{"q":"e%d"}]}`, i, i)
		d.Nested = [][]refdb.Tok{{{F: "q", V: "e1"}}, {{F: "q", V: fmt.Sprintf("e%d", i)}}}
		for k := range d.Nested { // nested metas carry the parent's tokens too (as bulk.indexer does)
			d.Nested[k] = append(d.Nested[k], d.Toks...)
		}
	}
	return d
}

type c17NCase struct {
	Nested  bool    `json:"nested"`
	History [][]int `json:"history"`
}

func c17NestedRun(r *vlib.Run, env *vfrac.Env, hist [][]int) {
	build := func(h [][]int) *frac.Active {
		a := env.NewActive(env.NextBase(), &frac.Config{})
		for _, b := range h {
			var blk []refdb.Doc
			for _, i := range b {
				blk = append(blk, c17NDoc(i))
			}
			if err := env.Append(a, blk); err != nil {
				panic(err)
			}
		}
		return a
	}
	seen := map[int]bool{}
	var once [][]int
	for _, b := range hist {
		var nb []int
		for _, i := range b {
			if !seen[i] {
				seen[i] = true
				nb = append(nb, i)
			}
		}
		if len(nb) > 0 {
			once = append(once, nb)
		}
	}
	queries, err := parseAll([]refdb.Query{refdb.All{}, refdb.Lit{Field: "s", Pattern: "x"}, refdb.Lit{Field: "q", Pattern: "e1"}, refdb.Lit{Field: "q", Pattern: "e5"},
		refdb.Not{X: refdb.Lit{Field: "q", Pattern: "e1"}}, refdb.Lit{Field: "_exists_", Pattern: "q"}})
	if err != nil {
		panic(err)
	}
	answers := func(f frac.Fraction) []string {
		var out []string
		for _, pq := range queries {
			for _, asc := range []bool{false, true} {
				p := vfrac.Params(pq, 0, vfrac.MaxMID, asc, 100, true)
				p.HistInterval = 1
				p.AggQ = []processor.AggQuery{{Func: seq.AggFuncCount, GroupBy: wildcard("g")}}
				qpr, err := vfrac.Search(f, p)
				if err != nil {
					out = append(out, "error "+err.Error())
					continue
				}
				res := qpr.Aggregate([]seq.AggregateArgs{{Func: seq.AggFuncCount}})
				out = append(out, fmt.Sprintf("%s asc=%v ids=[%s] total=%d hist=[%s] count-by-g=%s", pq.Text, asc, idsStr(vfrac.RefIDs(qpr.IDs.IDs())), qpr.Total, canonHist(qpr.Histogram), canonRealAgg(res[0])))
			}
		}
		out = append(out, fmt.Sprintf("DocsTotal=%d", f.Info().DocsTotal))
		return out
	}
	compare := func(stage string, got, want []string) {
		for i := range want {
			r.Add("evaluations", 1)
			if got[i] != want[i] {
				r.Violation(fmt.Sprintf("nested history=%v stage=%s: answer differs from the same documents delivered once", hist, stage), c17NCase{Nested: true, History: hist}, fmt.Sprintf("with repeats: %s\ndelivered once: %s", got[i], want[i]))
				return
			}
		}
	}
	a, ref := build(hist), build(once)
	compare("active", answers(a), answers(ref))
	sp := frac.SealParams{IDsZstdLevel: 1, LIDsZstdLevel: 1, TokenListZstdLevel: 1, DocsPositionsZstdLevel: 1, TokenTableZstdLevel: 1, DocBlocksZstdLevel: 1}
	s, err1 := env.Seal(a, sp, nil)
	sr, err2 := env.Seal(ref, sp, nil)
	if err1 != nil || err2 != nil {
		r.Violation(fmt.Sprintf("nested history=%v seal-error", hist), c17NCase{Nested: true, History: hist}, fmt.Sprint(err1, err2))
		return
	}
	compare("sealed", answers(s), answers(sr))
	a.Release()
	ref.Release()
	s.Suicide()
	sr.Suicide()
	r.Add("nested_histories", 1)
	r.Distinct("nontrivial", fmt.Sprint("nested", hist))
}

func TestVerifC17(t *testing.T) {
	r := vlib.NewRun("C17")
	env := vfrac.NewEnv("c17")
	defer env.Close()
	var rc c17Case
	var rn c17NCase
	if r.LoadReplay(&rn) && rn.Nested {
		c17NestedRun(r, env, rn.History)
		r.Finish(t, "model_checking", "replay", nil, nil)
		return
	}
	if r.LoadReplay(&rc) {
		c17Run(r, env, c17Case{History: rc.History, Rotate: rc.Rotate, Rotate2: rc.Rotate2})
		r.Finish(t, "model_checking", "replay", nil, nil)
		return
	}
	// bulks: ordered subsets of <=3 distinct IDs from {1..4}
	var bulks [][]int
	var rec func(cur []int, used int)
	rec = func(cur []int, used int) {
		if len(cur) > 0 {
			bulks = append(bulks, append([]int{}, cur...))
		}
		if len(cur) == 3 {
			return
		}
		for i := 1; i <= 4; i++ {
			if used&(1<<i) == 0 {
				rec(append(cur, i), used|1<<i)
			}
		}
	}
	rec(nil, 0)
	var cases []c17Case
	for _, b1 := range bulks {
		cases = append(cases, c17Case{History: [][]int{b1}})
		for _, b2 := range bulks {
			cases = append(cases, c17Case{History: [][]int{b1, b2}}, c17Case{History: [][]int{b1, b2}, Rotate: true})
			for bi, b3 := range bulks {
				// quick: third bulk restricted to bulks of <=2 IDs (16 of 40); thorough: all
				if !r.Thorough() && len(b3) > 2 {
					continue
				}
				cases = append(cases, c17Case{History: [][]int{b1, b2, b3}})
				if r.Thorough() || bi%4 == 0 {
					cases = append(cases, c17Case{History: [][]int{b1, b2, b3}, Rotate: true})
				}
				if r.Thorough() || bi%4 == 1 {
					cases = append(cases, c17Case{History: [][]int{b1, b2, b3}, Rotate: true, Rotate2: true})
				}
			}
		}
	}
	// nested documents: histories of <=3 bulks (ordered subsets of <=3 IDs) over {1, 2, 5, 6} (5, 6 nested) with a repeat
	var nbulks [][]int
	var recN func(cur []int, used int)
	nids := []int{1, 2, 5, 6}
	recN = func(cur []int, used int) {
		if len(cur) > 0 {
			nbulks = append(nbulks, append([]int{}, cur...))
		}
		if len(cur) == 3 {
			return
		}
		for k, i := range nids {
			if used&(1<<k) == 0 {
				recN(append(cur, i), used|1<<k)
			}
		}
	}
	recN(nil, 0)
	var ncases [][][]int
	hasRepeat := func(h [][]int) bool {
		seen := map[int]bool{}
		for _, b := range h {
			for _, i := range b {
				if seen[i] {
					return true
				}
				seen[i] = true
			}
		}
		return false
	}
	for _, b1 := range nbulks {
		for _, b2 := range nbulks {
			if h := [][]int{b1, b2}; hasRepeat(h) {
				ncases = append(ncases, h)
			}
			if !r.Thorough() {
				continue
			}
			for _, b3 := range nbulks {
				if h := [][]int{b1, b2, b3}; len(b3) <= 2 && hasRepeat(h) {
					ncases = append(ncases, h)
				}
			}
		}
	}
	vlib.Parallel(len(ncases), 0, func(i int) {
		if r.Expired() {
			return
		}
		c17NestedRun(r, env, ncases[i])
	})
	r.Note("bulks=%d histories=%d nested_histories=%d", len(bulks), len(cases), len(ncases))
	r.Sample(c17Case{History: [][]int{{1, 2, 3}, {3, 1}, {4, 2}}, Rotate: false})
	vlib.Parallel(len(cases), 0, func(i int) {
		if r.Expired() {
			return
		}
		c17Run(r, env, cases[i])
	})
	ev := r.Get("evaluations")
	r.Finish(t, "model_checking",
		"ID universe {1..4} (documents with 3,4,5 and 2 tokens, shared and private), a bulk = any ordered subset of <=3 distinct IDs (40 bulks); every history of <=3 bulks (quick: third bulk of <=2 IDs) in one active fraction, plus the variant where the first bulk lands in an earlier sealed fraction; judged on the active fraction, after sealing and after reopening from files: 6 queries x both orders (ids; for same-fraction repeats also total, histogram, count and sum aggregations, Info.DocsTotal) and fetch of every ID. Nested documents (several metas under one ID): every history of 2 (thorough 3) bulks over {1, 2, two nested documents} containing a repeat, judged differentially against a fraction fed with every document once (ids, total, histogram, count aggregation, DocsTotal; active and sealed). non-trivial = histories that contain at least one repeated ID",
		map[string]any{
			"states":                        r.Get("histories") + r.Get("nested_histories"),
			"transitions":                   ev,
			"traces_validated_against_impl": ev,
		},
		[]string{"a repeated ID carries the same bytes and tokens (proxy retry)", "across fractions only listing and fetch are promised"})
}
