package hfrac

// C06 — aggregations and histograms equal values computed from the matching documents, in whatever
// order and grouping the partial results of fractions are merged; also through the store<->proxy
// conversion (Ingestor.Search over an in-process store).

import (
	"context"
	"fmt"
	"math"
	"sort"
	"strconv"
	"strings"
	"testing"

	"github.com/ozontech/seq-db/frac"
	"github.com/ozontech/seq-db/frac/processor"
	"github.com/ozontech/seq-db/proxy/search"
	"github.com/ozontech/seq-db/querytracer"
	"github.com/ozontech/seq-db/seq"
	"github.com/ozontech/seq-db/zzverif/refdb"
	"github.com/ozontech/seq-db/zzverif/vfrac"
	"github.com/ozontech/seq-db/zzverif/vlib"
)

type c06Doc struct {
	G  int `json:"g"`  // 0 absent, 1 g1, 2 g2
	V  int `json:"v"`  // index into c06Vals (0 absent)
	TS int `json:"ts"` // timestamp slot
}

var c06Vals = []string{"", "1", "-2", "0.5", "1e1", "3"}

type c06Case struct {
	Docs  []c06Doc       `json:"docs"`
	Part  []int          `json:"part,omitempty"`
	Query string         `json:"query"`
	Agg   *refdb.AggSpec `json:"agg,omitempty"`
	Hist  uint64         `json:"hist,omitempty"`
	Merge string         `json:"merge,omitempty"`
	Proxy bool           `json:"proxy,omitempty"`
	Range int      `json:"range,omitempty"` // 0: full time range, 1 / 2: the ranges that cut the corpus
}

func c06Docs(ds []c06Doc) []refdb.Doc {
	docs := make([]refdb.Doc, len(ds))
	for i, d := range ds {
		var toks []refdb.Tok
		if d.G > 0 {
			toks = append(toks, refdb.Tok{F: "g", V: fmt.Sprintf("g%d", d.G)})
		}
		if d.V > 0 {
			toks = append(toks, refdb.Tok{F: "v", V: c06Vals[d.V]})
		}
		docs[i] = refdb.Doc{ID: refdb.ID{MID: uint64(vfrac.BaseMID + d.TS), RID: uint64(10 + i)}, Body: fmt.Sprintf(`{"i":%d}`, i), Toks: vfrac.WithExists(toks)}
	}
	return docs
}

var c06Funcs = map[string]seq.AggFunc{"count": seq.AggFuncCount, "unique": seq.AggFuncUnique, "sum": seq.AggFuncSum, "min": seq.AggFuncMin, "max": seq.AggFuncMax, "avg": seq.AggFuncAvg, "quantile": seq.AggFuncQuantile}

func c06Specs() []refdb.AggSpec {
	var res []refdb.AggSpec
	for _, iv := range []uint64{0, 2} {
		res = append(res, refdb.AggSpec{Func: "count", GroupBy: "g", Interval: iv})
		for _, f := range []string{"sum", "min", "max", "avg"} {
			res = append(res, refdb.AggSpec{Func: f, Field: "v", Interval: iv}, refdb.AggSpec{Func: f, Field: "v", GroupBy: "g", Interval: iv})
		}
		for _, q := range [][]float64{{0.5}, {0, 1}, {0.25, 0.9}, {0, 0.5, 1}, {0.5, 1}} { // 0 and 1 are answered from min / max, inner ones from the samples
			res = append(res, refdb.AggSpec{Func: "quantile", Field: "v", Interval: iv, Quantiles: q}, refdb.AggSpec{Func: "quantile", Field: "v", GroupBy: "g", Interval: iv, Quantiles: q})
		}
	}
	res = append(res, refdb.AggSpec{Func: "unique", GroupBy: "g"})
	// count grouped by the numeric field (a group with many values)
	res = append(res, refdb.AggSpec{Func: "count", GroupBy: "v"})
	return res
}

func realAggQuery(s refdb.AggSpec) processor.AggQuery {
	q := processor.AggQuery{Func: c06Funcs[s.Func], Interval: int64(s.Interval), Quantiles: s.Quantiles}
	if s.Field != "" {
		q.Field = wildcard(s.Field)
	}
	if s.GroupBy != "" {
		q.GroupBy = wildcard(s.GroupBy)
	}
	return q
}

func fnum(f float64) string {
	if math.IsNaN(f) {
		return "NaN"
	}
	return strconv.FormatFloat(f, 'g', -1, 64)
}

func canonRealAgg(r seq.AggregationResult) string {
	var parts []string
	for _, b := range r.Buckets {
		var qs []string
		for _, q := range b.Quantiles {
			qs = append(qs, fnum(q))
		}
		parts = append(parts, fmt.Sprintf("(%d|%s v=%s q=[%s] ne=%d)", b.MID, b.Name, fnum(b.Value), strings.Join(qs, ","), b.NotExists))
	}
	sort.Strings(parts)
	return fmt.Sprintf("NE=%d %s", r.NotExists, strings.Join(parts, " "))
}

func cloneQPR(q *seq.QPR) *seq.QPR {
	c := &seq.QPR{Total: q.Total}
	c.IDs = append(seq.IDSources{}, q.IDs...)
	if q.Histogram != nil {
		c.Histogram = map[seq.MID]uint64{}
		for k, v := range q.Histogram {
			c.Histogram[k] = v
		}
	}
	for _, a := range q.Aggs {
		na := seq.AggregatableSamples{NotExists: a.NotExists, SamplesByBin: map[seq.AggBin]*seq.SamplesContainer{}}
		for k, h := range a.SamplesByBin {
			nh := *h
			nh.Samples = append([]float64{}, h.Samples...)
			na.SamplesByBin[k] = &nh
		}
		c.Aggs = append(c.Aggs, na)
	}
	return c
}

func mergeFresh(parts []*seq.QPR, nAggs int, hist uint64) *seq.QPR {
	dst := &seq.QPR{Histogram: map[seq.MID]uint64{}, Aggs: make([]seq.AggregatableSamples, nAggs)}
	cl := make([]*seq.QPR, len(parts))
	for i, p := range parts {
		cl[i] = cloneQPR(p)
	}
	seq.MergeQPRs(dst, cl, 100, seq.MID(hist), seq.DocsOrderDesc)
	return dst
}

// all merge trees over the given parts: every permutation, flat and both parenthesisations
func mergeTrees(parts []*seq.QPR, nAggs int, hist uint64) map[string]*seq.QPR {
	res := map[string]*seq.QPR{}
	n := len(parts)
	for _, p := range perms(n) {
		ord := make([]*seq.QPR, n)
		for i, j := range p {
			ord[i] = parts[j]
		}
		res[fmt.Sprintf("flat%v", p)] = mergeFresh(ord, nAggs, hist)
		if n == 3 {
			ab := mergeFresh(ord[:2], nAggs, hist)
			res[fmt.Sprintf("(ab)c%v", p)] = mergeFresh([]*seq.QPR{ab, ord[2]}, nAggs, hist)
			bc := mergeFresh(ord[1:], nAggs, hist)
			res[fmt.Sprintf("a(bc)%v", p)] = mergeFresh([]*seq.QPR{ord[0], bc}, nAggs, hist)
		}
		if n == 2 { // incremental merge into an existing accumulator, as Searcher.SearchDocs does
			acc := mergeFresh(ord[:1], nAggs, hist)
			seq.MergeQPRs(acc, []*seq.QPR{cloneQPR(ord[1])}, 100, seq.MID(hist), seq.DocsOrderDesc)
			res[fmt.Sprintf("acc%v", p)] = acc
		}
	}
	return res
}

var c06Queries []vfrac.ParsedQuery

func init() {
	var err error
	c06Queries, err = parseAll([]refdb.Query{refdb.All{}, refdb.Not{X: refdb.Lit{Field: "g", Pattern: "g2"}}})
	if err != nil {
		panic(err)
	}
}

func c06Query(text string) vfrac.ParsedQuery {
	for _, q := range c06Queries {
		if q.Text == text {
			return q
		}
	}
	panic(text)
}

// runC06Corpus checks every aggregation spec / histogram interval on one corpus for every partition
// and merge tree. only != nil restricts to one case (replay).
func runC06Corpus(r *vlib.Run, env *vfrac.Env, ds []c06Doc, only *c06Case) {
	docs := c06Docs(ds)
	n := len(docs)
	specs := c06Specs()
	hists := []uint64{1, 2, 5}
	for _, part := range partitions(n, 3) {
		if only != nil && fmt.Sprint(only.Part) != fmt.Sprint(part) {
			continue
		}
		nb := 0
		for _, p := range part {
			nb = max(nb, p+1)
		}
		var fracs []*frac.Active
		for b := 0; b < nb; b++ {
			var blk []refdb.Doc
			for i, p := range part {
				if p == b {
					blk = append(blk, docs[i])
				}
			}
			a := env.NewActive(env.NextBase(), &frac.Config{})
			if err := env.Append(a, blk); err != nil {
				panic(err)
			}
			fracs = append(fracs, a)
		}
		// the full time range, and two ranges that cut the corpus (tokens that occur only outside the range must
		// not disturb the aggregation of the ones inside)
		for ri, rg := range [][2]uint64{{0, vfrac.MaxMID}, {vfrac.BaseMID + 1, vfrac.MaxMID}, {0, vfrac.BaseMID + 1}} {
			for _, pq := range c06Queries {
				if ri > 0 && only != nil {
					continue
				}
				matching := refdb.Matching(docs, pq.Ref, rg[0], rg[1])
				// all aggregation specs in ONE request (multi-agg), plus histogram per interval
				var aq []processor.AggQuery
				for _, s := range specs {
					aq = append(aq, realAggQuery(s))
				}
				for _, hi := range hists {
					if only != nil && only.Hist != 0 && only.Hist != hi {
						continue
					}
					if ri > 0 && hi != hists[0] {
						continue
					}
					p := vfrac.Params(pq, rg[0], rg[1], false, 100, true)
					p.AggQ = aq
					p.HistInterval = hi
					var parts []*seq.QPR
					failed := false
					for _, a := range fracs {
						qpr, err := vfrac.Search(a, p)
						if err != nil {
							r.Violation(fmt.Sprintf("search-error docs=%v part=%v q=%s", ds, part, pq.Text), c06Case{Docs: ds, Part: part, Query: pq.Text, Hist: hi}, err.Error())
							failed = true
							break
						}
						parts = append(parts, qpr)
					}
					if failed {
						continue
					}
					// the scan direction is not part of a histogram or an aggregation: the ascending request must give,
					// fraction by fraction, what the descending one gives (which is judged against the reference below)
					for fi, a := range fracs {
						pa := p
						pa.Order = seq.DocsOrderAsc
						qa, err := vfrac.Search(a, pa)
						r.Add("evaluations", 1)
						if err != nil {
							r.Violation(fmt.Sprintf("search-error-asc docs=%v part=%v q=%s", ds, part, pq.Text), c06Case{Docs: ds, Part: part, Query: pq.Text, Hist: hi}, err.Error())
							continue
						}
						if g, w := canonHist(qa.Histogram), canonHist(parts[fi].Histogram); g != w || qa.Total != parts[fi].Total {
							r.Violation(fmt.Sprintf("hist-asc-differs docs=%v part=%v q=%s interval=%d frac=%d", ds, part, pq.Text, hi, fi), c06Case{Docs: ds, Part: part, Query: pq.Text, Hist: hi}, fmt.Sprintf("asc [%s] total %d, desc [%s] total %d", g, qa.Total, w, parts[fi].Total))
						}
						if hi == hists[0] {
							args := make([]seq.AggregateArgs, len(specs))
							for i, s := range specs {
								args[i] = seq.AggregateArgs{Func: c06Funcs[s.Func], Quantiles: s.Quantiles, SkipWithoutTimestamp: s.Interval > 0}
							}
							ra, rd := cloneQPR(qa).Aggregate(args), cloneQPR(parts[fi]).Aggregate(args)
							for i := range specs {
								if g, w := canonRealAgg(ra[i]), canonRealAgg(rd[i]); g != w {
									sp := specs[i]
									r.Violation(fmt.Sprintf("agg-asc-differs docs=%v part=%v q=%s range=%d spec=%s frac=%d", ds, part, pq.Text, ri, vlib.JSON(sp), fi), c06Case{Docs: ds, Part: part, Query: pq.Text, Agg: &sp, Range: ri}, fmt.Sprintf("asc  %s\ndesc %s", g, w))
								}
							}
						}
					}
					wantHist := canonRefHist(refdb.Histogram(docs, pq.Ref, rg[0], rg[1], hi))
					for name, m := range mergeTrees(parts, len(specs), hi) {
						r.Add("evaluations", 1)
						if g := canonHist(m.Histogram); g != wantHist {
							r.Violation(fmt.Sprintf("hist docs=%v part=%v q=%s interval=%d merge=%s", ds, part, pq.Text, hi, name), c06Case{Docs: ds, Part: part, Query: pq.Text, Hist: hi, Merge: name}, fmt.Sprintf("got [%s] want [%s]", g, wantHist))
						}
						if int(m.Total) != len(matching) {
							r.Violation(fmt.Sprintf("total docs=%v part=%v q=%s merge=%s", ds, part, pq.Text, name), c06Case{Docs: ds, Part: part, Query: pq.Text, Hist: hi, Merge: name}, fmt.Sprintf("total %d want %d", m.Total, len(matching)))
						}
						if hi != hists[0] {
							continue // aggregations do not depend on the histogram interval: judged once
						}
						args := make([]seq.AggregateArgs, len(specs))
						for i, s := range specs {
							args[i] = seq.AggregateArgs{Func: c06Funcs[s.Func], Quantiles: s.Quantiles, SkipWithoutTimestamp: s.Interval > 0}
						}
						results := m.Aggregate(args)
						for i, s := range specs {
							r.Add("evaluations", 1)
							want := refdb.Aggregate(matching, s).Canon()
							got := canonRealAgg(results[i])
							if got != want {
								sp := s
								r.Violation(fmt.Sprintf("agg docs=%v part=%v q=%s range=%d spec=%s merge=%s", ds, part, pq.Text, ri, vlib.JSON(s), name), c06Case{Docs: ds, Part: part, Query: pq.Text, Agg: &sp, Merge: name, Range: ri}, fmt.Sprintf("got  %s\nwant %s", got, want))
							}
							if len(matching) > 0 {
								r.Add("nontrivial_aggs", 1)
							}
						}
					}
				}
			}
		}
		for _, a := range fracs {
			a.Suicide()
		}
	}
}

func c06Proxy(r *vlib.Run, ds []c06Doc) {
	docs := c06Docs(ds)
	ts := make([]int, len(ds))
	part := make([]int, len(ds))
	for i := range ds {
		part[i] = i % 2
	}
	// cluster with OUR docs (buildCluster derives docs from ts; replace by a custom build)
	cl := buildClusterDocs(docs, part, 2, 1)
	defer cl.close()
	_ = ts
	for _, pq := range c06Queries {
		matching := refdb.Matching(docs, pq.Ref, 0, vfrac.MaxMID)
		for _, s := range c06Specs() {
			if s.Func == "unique" {
				continue // not exposed through the proxy search request
			}
			r.Add("evaluations", 1)
			sr := &search.SearchRequest{Q: []byte(pq.Text), Size: 10, From: 0, To: seq.MID(vfrac.MaxMID), WithTotal: true, Interval: 2,
				AggQ: []search.AggQuery{{Field: s.Field, GroupBy: s.GroupBy, Func: c06Funcs[s.Func], Quantiles: s.Quantiles, Interval: seq.MID(s.Interval)}}}
			qpr, _, _, err := cl.ing.Search(context.Background(), sr, querytracer.New(false, "verif"))
			sp := s
			c := c06Case{Docs: ds, Query: pq.Text, Agg: &sp, Proxy: true}
			if err != nil {
				r.Violation(fmt.Sprintf("proxy-agg-error docs=%v spec=%s", ds, vlib.JSON(s)), c, err.Error())
				continue
			}
			res := qpr.Aggregate([]seq.AggregateArgs{{Func: c06Funcs[s.Func], Quantiles: s.Quantiles, SkipWithoutTimestamp: s.Interval > 0}})
			want := refdb.Aggregate(matching, s).Canon()
			if got := canonRealAgg(res[0]); got != want {
				r.Violation(fmt.Sprintf("proxy-agg docs=%v q=%s spec=%s", ds, pq.Text, vlib.JSON(s)), c, fmt.Sprintf("got  %s\nwant %s", got, want))
			}
			if g, w := canonHist(qpr.Histogram), canonRefHist(refdb.Histogram(docs, pq.Ref, 0, vfrac.MaxMID, 2)); g != w {
				r.Violation(fmt.Sprintf("proxy-hist docs=%v q=%s", ds, pq.Text), c, fmt.Sprintf("got [%s] want [%s]", g, w))
			}
			// the older spelling of a count aggregation names the group-by field as `field`: same request, same answer
			if s.Func == "count" && s.Field == "" && s.GroupBy != "" {
				r.Add("evaluations", 1)
				sr2 := *sr
				sr2.AggQ = []search.AggQuery{{Field: s.GroupBy, Func: c06Funcs[s.Func], Interval: seq.MID(s.Interval)}}
				qpr2, _, _, err := cl.ing.Search(context.Background(), &sr2, querytracer.New(false, "verif"))
				if err != nil {
					r.Violation(fmt.Sprintf("proxy-agg-error (count by `field`) docs=%v spec=%s", ds, vlib.JSON(s)), c, err.Error())
					continue
				}
				res2 := qpr2.Aggregate([]seq.AggregateArgs{{Func: c06Funcs[s.Func], SkipWithoutTimestamp: s.Interval > 0}})
				if got := canonRealAgg(res2[0]); got != want {
					r.Violation(fmt.Sprintf("proxy-agg (count by `field`) docs=%v q=%s spec=%s", ds, pq.Text, vlib.JSON(s)), c, fmt.Sprintf("got  %s\nwant %s", got, want))
				}
			}
		}
	}
	r.Add("proxy_corpora", 1)
}

func TestVerifC06(t *testing.T) {
	r := vlib.NewRun("C06")
	env := vfrac.NewEnv("c06")
	defer env.Close()
	var rc c06Case
	if r.LoadReplay(&rc) {
		if len(rc.Docs) == 0 { // a replay artefact of the proxy API add-on: nothing to do here
			r.Finish(t, "model_checking", "replay", nil, nil)
			return
		}
		if rc.Proxy {
			c06Proxy(r, rc.Docs)
		} else {
			runC06Corpus(r, env, rc.Docs, &rc)
		}
		r.Finish(t, "model_checking", "replay", nil, nil)
		return
	}
	var corpora [][]c06Doc
	var rec func(cur []c06Doc, max int, gs, vs, tss []int)
	rec = func(cur []c06Doc, max int, gs, vs, tss []int) {
		if len(cur) == max {
			corpora = append(corpora, append([]c06Doc{}, cur...))
			return
		}
		for _, g := range gs {
			for _, v := range vs {
				for _, ts := range tss {
					rec(append(cur, c06Doc{g, v, ts}), max, gs, vs, tss)
				}
			}
		}
	}
	allG, allV, allT := []int{0, 1, 2}, []int{0, 1, 2, 3, 4, 5}, []int{0, 1, 2}
	rec(nil, 1, allG, allV, allT)
	rec(nil, 2, allG, allV, allT)
	if r.Thorough() {
		rec(nil, 3, allG, []int{0, 1, 2, 3, 4}, []int{0, 1, 2})
		rec(nil, 4, []int{0, 1}, []int{0, 1, 2}, []int{0, 1})
	} else {
		rec(nil, 3, []int{0, 1}, []int{0, 1, 2, 3}, []int{0, 1})
	}
	vlib.Parallel(len(corpora), 0, func(i int) {
		if r.Expired() {
			return
		}
		runC06Corpus(r, env, corpora[i], nil)
		r.Distinct("nontrivial", fmt.Sprint(corpora[i]))
		r.Add("corpora", 1)
	})
	// store<->proxy conversion: all corpora of n<=2 (thinned: every 5th of n=2) and a slice of n=3
	var pc [][]c06Doc
	for i, c := range corpora {
		if len(c) == 1 || (len(c) == 2 && i%5 == 0) || (len(c) == 3 && i%97 == 0) {
			pc = append(pc, c)
		}
	}
	vlib.Parallel(len(pc), 8, func(i int) {
		if r.Expired() {
			return
		}
		c06Proxy(r, pc[i])
	})
	sp := c06Specs()[9]
	r.Sample(c06Case{Docs: corpora[len(corpora)-7], Part: []int{0, 1, 0}, Query: "*", Agg: &sp, Merge: "a(bc)[2 0 1]"})
	// exactness border of quantiles: 8096 samples exact, merged from two halves
	c06QuantileBorder(r)
	ev := r.Get("evaluations")
	r.Finish(t, "model_checking",
		"corpora: every sequence of <=2 docs over group{absent,g1,g2} x value{absent,1,-2,0.5,1e1,3} x 3 timestamps, n=3 over a reduced alphabet (thorough: larger + n=4); every set partition into <=3 fractions; ONE multi-aggregation request with 46 specs (count / sum,min,max,avg / 5 quantile lists - pure min/max, inner, and mixed ones, with and without group, interval 0 and 2; unique; count by the numeric field) + histogram intervals {1,2,5}, 2 queries, over the full time range and over two ranges that cut the corpus; every merge tree of the per-fraction partial results (all permutations, flat, (ab)c, a(bc), incremental accumulator) judged against values computed by refdb from the documents; a thinned set again through Ingestor.Search over two in-process shards (store<->proxy conversion); 8096/8097-sample quantile border",
		map[string]any{
			"states":                        r.Get("corpora") + r.Get("proxy_corpora"),
			"transitions":                   ev,
			"traces_validated_against_impl": ev,
		},
		[]string{"single-valued group/field tokens; dyadic values so that sums are exact in every merge order", "not-exists conventions of the store API are modelled as documented in refdb/agg.go, only the quantity each mode defines is compared"})
}

// c06QuantileBorder: a bucket with exactly 8096 samples must give exact quantiles after a merge of two
// partial results (the statement's exactness bound).
func c06QuantileBorder(r *vlib.Run) {
	for _, n := range []int{8096} {
		a, b := seq.NewSamplesContainers(), seq.NewSamplesContainers()
		var all []float64
		for i := 0; i < n; i++ {
			v := float64((i*7919)%n) / 2
			all = append(all, v)
			h := a
			if i%3 == 0 {
				h = b
			}
			h.InsertNTimes(v, 1)
			h.InsertSample(v)
		}
		x := seq.AggregatableSamples{SamplesByBin: map[seq.AggBin]*seq.SamplesContainer{{}: a}}
		y := seq.AggregatableSamples{SamplesByBin: map[seq.AggBin]*seq.SamplesContainer{{}: b}}
		var dst seq.AggregatableSamples
		dst.Merge(x)
		dst.Merge(y)
		sort.Float64s(all)
		qs := []float64{0, 0.001, 0.25, 0.5, 0.9, 0.999, 1}
		res := dst.Aggregate(seq.AggregateArgs{Func: seq.AggFuncQuantile, Quantiles: qs})
		for i, q := range qs {
			r.Add("evaluations", 1)
			want := all[int(float64(n-1)*q+0.5)]
			if got := res.Buckets[0].Quantiles[i]; got != want {
				r.Violation(fmt.Sprintf("quantile-border n=%d q=%v", n, q), c06Case{Query: fmt.Sprintf("border n=%d", n)}, fmt.Sprintf("got %v want %v", got, want))
			}
		}
	}
}
