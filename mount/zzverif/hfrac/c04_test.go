package hfrac

// C04 — fetch returns each stored document verbatim; unknown IDs are just "not found".
// Stores are built in worker subprocesses (a panic in the batch loader goroutine or a logger.Fatal
// kills the process; that death is an observation). Every list of <=3 distinct IDs over present IDs
// and absent IDs at every border, with every hint kind, through Fetcher.FetchDocs and the streaming
// GrpcV1.Fetch; plus lists of 1001..2500 IDs at the real chunk constant.

import (
	"context"
	"encoding/json"
	"fmt"
	"io"
	"os"
	"runtime"
	"runtime/debug"
	"strconv"
	"regexp"
	"strings"
	"sync"
	"testing"
	"time"

	"github.com/ozontech/seq-db/conf"
	"github.com/ozontech/seq-db/consts"
	"github.com/ozontech/seq-db/disk"
	"github.com/ozontech/seq-db/frac"
	"github.com/ozontech/seq-db/fracmanager"
	pb "github.com/ozontech/seq-db/pkg/storeapi"
	"github.com/ozontech/seq-db/seq"
	"github.com/ozontech/seq-db/storeapi"
	"github.com/ozontech/seq-db/zzverif/refdb"
	"github.com/ozontech/seq-db/zzverif/vfrac"
	"github.com/ozontech/seq-db/zzverif/vlib"
)

type c04Doc struct {
	MID, RID uint64
	Size     int
}

type c04Frac struct {
	Docs   []c04Doc
	Sealed bool
	// Deleted: the fraction is deleted (Suicide, as retention does) AFTER the list of fractions used by the
	// requests was taken: its documents are gone (not found), the request must not fail
	Deleted bool
}

type c04Corpus struct {
	Name  string
	Fracs []c04Frac
	// Recent: the MIDs are milliseconds BEFORE the start of the current wall-clock minute (resolved by
	// c04Init), so that the fraction gets a minute occupancy map and Contains() consults it
	Recent bool
	// SkipSort: the store runs with --sort-docs=false (a sealed fraction keeps serving the active fraction's docs file)
	SkipSort bool
}

var c04Corpora = []c04Corpus{
	{"one-active", []c04Frac{{[]c04Doc{{1000, 5, 2}, {1001, 5, 40}, {1002, 5, 200}}, false, false}}, false, false},
	{"one-sealed", []c04Frac{{[]c04Doc{{1000, 5, 2}, {1001, 5, 40}, {1002, 5, 200}}, true, false}}, false, false},
	{"sealed+active-overlap", []c04Frac{{[]c04Doc{{1000, 5, 30}, {1001, 5, 2}}, true, false}, {[]c04Doc{{1001, 7, 100}, {1003, 5, 9}}, false, false}}, false, false},
	{"two-sealed-overlap", []c04Frac{{[]c04Doc{{1000, 5, 30}, {1002, 9, 2}}, true, false}, {[]c04Doc{{1001, 7, 100}, {1002, 3, 9}}, true, false}}, false, false},
	{"single-doc-sealed", []c04Frac{{[]c04Doc{{1000, 5, 17}}, true, false}}, false, false},
	{"single-doc-active", []c04Frac{{[]c04Doc{{1000, 5, 17}}, false, false}}, false, false},
	{"equal-mids-sealed", []c04Frac{{[]c04Doc{{1000, 5, 10}, {1000, 7, 20}, {1000, 9, 30}, {1001, 1, 5}}, true, false}}, false, false},
	// two fractions sealed one after the other in one process, each with several doc blocks (64-byte blocks)
	{"two-sealed-multiblock", []c04Frac{{[]c04Doc{{1000, 5, 70}, {1001, 5, 80}, {1002, 5, 90}}, true, false}, {[]c04Doc{{1003, 5, 100}, {1004, 5, 120}, {1005, 5, 65}, {1006, 5, 75}}, true, false}}, false, false},
	// a sealed fraction deleted after the requests' fraction list was taken, next to a live one with the same time range
	{"deleted-after-listing", []c04Frac{{[]c04Doc{{1000, 5, 30}, {1002, 9, 12}}, true, true}, {[]c04Doc{{1001, 7, 100}, {1002, 3, 9}}, true, false}}, false, false},
	// six documents of one millisecond: with the scaled constants (4 IDs per block) the run crosses an ID-block border
	{"equal-mids-two-id-blocks-sealed", []c04Frac{{[]c04Doc{{1000, 5, 10}, {1000, 7, 20}, {1000, 9, 30}, {1000, 3, 5}, {1000, 11, 8}, {1000, 1, 14}}, true, false}}, false, false},
	// recent documents, sparse minutes: the oldest one is 30 s off the wall-clock minute, the others lie
	// 10 s before / after that offset in their minutes, with empty minutes in between
	{"recent-sparse-sealed", []c04Frac{{[]c04Doc{{12*60_000 - 30_000, 5, 10}, {8*60_000 - 20_000, 5, 20}, {8*60_000 - 40_000, 5, 30}, {4*60_000 - 40_000, 5, 12}, {2*60_000 - 20_000, 5, 25}}, true, false}}, true, false},
	// the same shape as sealed+active-overlap / two-sealed-multiblock in a store that does not re-sort documents at seal
	{Name: "nosort-sealed+sealed-multiblock+active", Fracs: []c04Frac{{[]c04Doc{{1000, 5, 30}, {1001, 5, 2}}, true, false}, {[]c04Doc{{1002, 5, 70}, {1003, 5, 80}, {1004, 5, 90}}, true, false}, {[]c04Doc{{1003, 7, 100}, {1005, 5, 9}}, false, false}}, SkipSort: true},
}

var c04InitOnce sync.Once

// c04Init resolves the recent corpora against VERIF_C04_NOW (set by the parent before the workers start).
func c04Init() {
	c04InitOnce.Do(func() {
		now, _ := strconv.ParseInt(os.Getenv("VERIF_C04_NOW"), 10, 64)
		if now == 0 {
			panic("VERIF_C04_NOW is not set")
		}
		m0 := uint64(now / 60_000 * 60_000)
		for ci := range c04Corpora {
			if !c04Corpora[ci].Recent {
				continue
			}
			for fi := range c04Corpora[ci].Fracs {
				for di := range c04Corpora[ci].Fracs[fi].Docs {
					c04Corpora[ci].Fracs[fi].Docs[di].MID = m0 - c04Corpora[ci].Fracs[fi].Docs[di].MID
				}
			}
		}
	})
}

func c04Body(d c04Doc) string {
	s := fmt.Sprintf(`{"m":%d,"r":%d,"p":"`, d.MID, d.RID)
	if d.Size <= 2 {
		return "{}"
	}
	// incompressible padding: compressed doc blocks of different documents then have different sizes, so
	// block offsets of two fractions differ (an offset table leaking between fractions is visible)
	x := uint32(d.MID*2654435761 + d.RID*40503 + 12345)
	for len(s)+2 < d.Size {
		x = x*1664525 + 1013904223
		s += string(rune('a' + (x>>24)%26))
	}
	return s + `"}`
}

type c04ID struct {
	MID, RID uint64
	Hint     string // "", right, wrong, unknown
}

type c04Job struct {
	Corpus int     `json:"corpus"`
	IDs    []c04ID `json:"ids,omitempty"`
	Via    string  `json:"via"` // fetcher | grpc
	// large lists: N ids, present docs of corpus placed at positions Pos, the rest absent
	Large *c04Large `json:"large,omitempty"`
	Now   int64     `json:"now,omitempty"` // the wall clock the recent corpora were resolved against
}

type c04Large struct {
	N       int   `json:"n"`
	Pos     []int `json:"pos"`      // positions of present docs (index into corpus docs, in order)
	AbsKind int   `json:"abs_kind"` // 0: absent with MID inside range & high RID; 1: absent far outside
	Rev     bool  `json:"rev,omitempty"` // the present docs are taken from the corpus in reverse order (newest fraction first)
}

type c04Answer struct {
	Docs []string `json:"docs"`
	Err  string   `json:"err"`
}

type c04MP struct{}

func (c04MP) GetMapping() seq.Mapping { return nil }

// ---- worker side ----

type c04Store struct {
	stale  fracmanager.List
	dir    string
	store  *storeapi.Store
	client pb.StoreApiClient
	names  []string // fraction names in corpus order
}

var (
	c04Stores   = map[int]*c04Store{}
	c04StoresMu sync.Mutex
)

func c04GetStore(ci int) *c04Store {
	c04StoresMu.Lock()
	defer c04StoresMu.Unlock()
	if s, ok := c04Stores[ci]; ok {
		return s
	}
	conf.SkipFsync = true
	conf.IndexWorkers = 1
	conf.FetchWorkers = 2
	conf.ReaderWorkers = 2
	// no GC while the corpus is built: two collections would empty the sync.Pools between two seals and
	// hide state that leaks through pooled objects (the sealer allocates 32 MiB buffers, so GCs are frequent)
	defer debug.SetGCPercent(debug.SetGCPercent(-1))
	dir := vfrac.MkTmp("c04")
	st, err := storeapi.NewStore(context.Background(), storeapi.StoreConfig{
		FracManager: fracmanager.Config{DataDir: dir, FracSize: 100 * consts.MB, TotalSize: 1000 * consts.MB, CacheSize: 10 * consts.MB, MaintenanceDelay: time.Hour,
			SealParams: frac.SealParams{DocBlockSize: 64}, // several doc blocks per sealed fraction
			Fraction:   frac.Config{SkipSortDocs: c04Corpora[ci].SkipSort}},
		API:         storeapi.APIConfig{StoreMode: storeapi.StoreModeCold, Search: storeapi.SearchConfig{WorkersCount: 2, FractionsPerIteration: 2}},
	}, c04MP{})
	if err != nil {
		panic(err)
	}
	s := &c04Store{dir: dir, store: st, client: storeapi.NewClient(st)}
	corp := c04Corpora[ci]
	for fi, f := range corp.Fracs {
		var docs []refdb.Doc
		for _, d := range f.Docs {
			docs = append(docs, refdb.Doc{ID: refdb.ID{MID: d.MID, RID: d.RID}, Body: c04Body(d), Toks: []refdb.Tok{{F: "k", V: "a"}}})
		}
		db, mb := vfrac.BuildBulk(docs, 1)
		if _, err := s.client.Bulk(context.Background(), &pb.BulkRequest{Count: int64(len(docs)), Docs: db, Metas: mb}); err != nil {
			panic(err)
		}
		st.WaitIdle()
		s.names = append(s.names, st.FracManager.Active().Info().Name())
		if f.Sealed || fi < len(corp.Fracs)-1 {
			st.SealAll()
		}
	}
	for fi, f := range corp.Fracs {
		if !f.Deleted {
			continue
		}
		if s.stale == nil {
			s.stale = st.FracManager.GetAllFracs()
		}
		for _, fr := range s.stale {
			if fr.Info().Name() == s.names[fi] {
				fr.Suicide()
			}
		}
	}
	c04Stores[ci] = s
	return s
}

func c04Handle(raw json.RawMessage) any {
	c04Init()
	// one P per store process: sync.Pool then hands an object back to the next user deterministically, so
	// state that leaks through pooled objects between two operations (two seals, two fetches) shows up
	runtime.GOMAXPROCS(1)
	var job c04Job
	if err := json.Unmarshal(raw, &job); err != nil {
		return c04Answer{Err: "bad job: " + err.Error()}
	}
	if job.Corpus < 0 { // cleanup request
		for _, s := range c04Stores {
			os.RemoveAll(s.dir)
		}
		return c04Answer{}
	}
	s := c04GetStore(job.Corpus)
	ids, _ := c04Resolve(job)
	var src []seq.IDSource
	for _, id := range ids {
		src = append(src, seq.IDSource{ID: seq.ID{MID: seq.MID(id.MID), RID: seq.RID(id.RID)}, Hint: c04HintName(s, job.Corpus, id)})
	}
	var ans c04Answer
	switch job.Via {
	case "fetcher":
		f := fracmanager.NewFetcher(2)
		list := s.store.FracManager.GetAllFracs()
		if s.stale != nil {
			list = s.stale // taken before a fraction was deleted
		}
		docs, err := f.FetchDocs(context.Background(), list, src)
		if err != nil {
			ans.Err = err.Error()
		}
		for _, d := range docs {
			ans.Docs = append(ans.Docs, string(d))
		}
	case "grpc":
		req := &pb.FetchRequest{}
		hinted := false
		for _, x := range src {
			if x.Hint != "" {
				hinted = true
			}
		}
		for _, x := range src {
			if hinted {
				req.IdsWithHints = append(req.IdsWithHints, &pb.IdWithHint{Id: x.ID.String(), Hint: x.Hint})
			} else {
				req.Ids = append(req.Ids, x.ID.String())
			}
		}
		stream, err := s.client.Fetch(context.Background(), req)
		if err != nil {
			ans.Err = err.Error()
			break
		}
		for {
			m, err := stream.Recv()
			if err == io.EOF {
				break
			}
			if err != nil {
				ans.Err = err.Error()
				break
			}
			blk := disk.DocBlock(m.Data)
			ans.Docs = append(ans.Docs, fmt.Sprintf("%d.%d:%s", blk.GetExt1(), blk.GetExt2(), blk.Payload()))
		}
	}
	return ans
}

func c04HintName(s *c04Store, ci int, id c04ID) string {
	corp := c04Corpora[ci]
	home := -1
	for fi, f := range corp.Fracs {
		for _, d := range f.Docs {
			if d.MID == id.MID && d.RID == id.RID {
				home = fi
			}
		}
	}
	switch id.Hint {
	case "right":
		if home < 0 {
			home = 0
		}
		return s.names[home]
	case "wrong":
		if len(s.names) > 1 {
			if home < 0 {
				home = 0
			}
			return s.names[(home+1)%len(s.names)]
		}
		return "seq-db-NOPE"
	case "unknown":
		return "seq-db-NOPE"
	}
	return ""
}

// c04Resolve expands a job into its ID list and the expected body ("" = not found) per position.
func c04Resolve(job c04Job) ([]c04ID, []string) {
	corp := c04Corpora[job.Corpus]
	body := map[[2]uint64]string{}
	var all []c04Doc
	for _, f := range corp.Fracs {
		for _, d := range f.Docs {
			if !f.Deleted {
				body[[2]uint64{d.MID, d.RID}] = c04Body(d)
			}
			all = append(all, d)
		}
	}
	ids := job.IDs
	if job.Large != nil {
		ids = nil
		at := map[int]c04Doc{}
		for i, p := range job.Large.Pos {
			at[p] = all[i%len(all)]
			if job.Large.Rev {
				at[p] = all[len(all)-1-i%len(all)]
			}
		}
		for i := 0; i < job.Large.N; i++ {
			if d, ok := at[i]; ok {
				ids = append(ids, c04ID{MID: d.MID, RID: d.RID})
			} else if job.Large.AbsKind == 0 {
				ids = append(ids, c04ID{MID: all[0].MID, RID: uint64(1000 + i)})
			} else {
				ids = append(ids, c04ID{MID: uint64(5000 + i), RID: 1})
			}
		}
	}
	want := make([]string, len(ids))
	for i, id := range ids {
		want[i] = body[[2]uint64{id.MID, id.RID}]
	}
	return ids, want
}

func TestVerifWorker(t *testing.T) {
	vlib.ServeWorker(map[string]vlib.Handler{"c04": c04Handle})
}

// ---- parent side ----

var reNum = regexp.MustCompile(`[0-9]+`)
var reFrac = regexp.MustCompile(`seq-db-[0-9A-Z]+`)

func normErr(s string) string {
	s = reFrac.ReplaceAllString(s, "seq-db-X")
	s = reNum.ReplaceAllString(s, "N")
	if len(s) > 160 {
		s = s[:160]
	}
	return s
}

func c04Universe(ci int) (present, absent []c04ID) {
	corp := c04Corpora[ci]
	seen := map[[2]uint64]bool{}
	add := func(list *[]c04ID, m, r uint64) {
		k := [2]uint64{m, r}
		if seen[k] {
			return
		}
		seen[k] = true
		*list = append(*list, c04ID{MID: m, RID: r})
	}
	for _, f := range corp.Fracs {
		for _, d := range f.Docs {
			add(&present, d.MID, d.RID)
		}
	}
	for _, f := range corp.Fracs {
		from, to := f.Docs[0].MID, f.Docs[0].MID
		for _, d := range f.Docs {
			from, to = min(from, d.MID), max(to, d.MID)
		}
		var minRIDFrom, maxRIDTo uint64 = 1 << 62, 0
		for _, d := range f.Docs {
			if d.MID == from {
				minRIDFrom = min(minRIDFrom, d.RID)
			}
			if d.MID == to {
				maxRIDTo = max(maxRIDTo, d.RID)
			}
		}
		add(&absent, from-1, 5)
		add(&absent, from, minRIDFrom-1)
		add(&absent, from, minRIDFrom+1)
		add(&absent, to, maxRIDTo+1)
		add(&absent, to+1, 0)
		if to > from {
			add(&absent, from+1, 6) // between two stored IDs
		}
	}
	add(&absent, 0, 0)
	add(&absent, 1<<60, 1<<60)
	add(&absent, 1<<63, 1)           // beyond the int64 range of times
	add(&absent, 1<<64-1, 1<<64-1) // the largest ID there is
	return
}

func judgeC04(r *vlib.Run, pool *vlib.Pool, job c04Job) {
	r.Add("evaluations", 1)
	ids, want := c04Resolve(job)
	var ans c04Answer
	res, err := pool.Do(job, &ans, 120*time.Second)
	if err != nil {
		panic(err)
	}
	desc := fmt.Sprintf("corpus=%s via=%s", c04Corpora[job.Corpus].Name, job.Via)
	if job.Large != nil {
		desc += fmt.Sprintf(" large=%s", vlib.JSON(job.Large))
	} else {
		desc += fmt.Sprintf(" ids=%s", vlib.JSON(job.IDs))
	}
	if res.Died || res.Hung {
		// re-run alone on a fresh worker before believing it
		again := 0
		for i := 0; i < 2; i++ {
			var a2 c04Answer
			r2, _ := pool.Do(job, &a2, 120*time.Second)
			if r2.Died || r2.Hung {
				again++
			}
		}
		if again == 2 {
			kind := "store-died"
			if res.Hung {
				kind = "store-hung"
			}
			cause := ""
			for _, l := range strings.Split(res.Stderr, "\n") {
				if strings.HasPrefix(l, "panic:") || strings.HasPrefix(l, "fatal error:") {
					cause = l
					break
				}
			}
			r.Violation(kind+": "+normErr(cause), job, desc+"\n"+vlib.JSON(res.Exit)+"\n"+tail(res.Stderr, 1200))
		} else {
			r.Note("worker death not reproducible for %s", desc)
		}
		return
	}
	if ans.Err != "" {
		r.Violation("fetch-error: "+normErr(ans.Err), job, desc+"\nerror: "+ans.Err)
		return
	}
	if len(ans.Docs) != len(ids) {
		r.Violation(fmt.Sprintf("fetch-count corpus=%s via=%s", c04Corpora[job.Corpus].Name, job.Via), job, fmt.Sprintf("%s\ngot %d entries for %d ids", desc, len(ans.Docs), len(ids)))
		return
	}
	nontrivial := false
	for i, id := range ids {
		got := ans.Docs[i]
		if job.Via == "grpc" {
			pre := fmt.Sprintf("%d.%d:", id.MID, id.RID)
			if !strings.HasPrefix(got, pre) {
				r.Violation("fetch-stream-id-mismatch", job, fmt.Sprintf("%s\nposition %d carries %q, expected id %s", desc, i, trunc(got, 60), pre))
				return
			}
			got = got[len(pre):]
		}
		exp := want[i]
		ok := got == exp
		if !ok && (id.Hint == "wrong" || id.Hint == "unknown") && got == "" {
			ok = true // a hint naming another/unknown fraction may hide the document, never corrupt it
		}
		if !ok {
			kind := "fetch-wrong-bytes"
			if got == "" {
				kind = "fetch-missing"
			} else if exp == "" {
				kind = "fetch-phantom"
			}
			r.Violation(fmt.Sprintf("%s corpus=%s via=%s hint=%s", kind, c04Corpora[job.Corpus].Name, job.Via, id.Hint), job, fmt.Sprintf("%s\nposition %d id=%d.%d got %q want %q", desc, i, id.MID, id.RID, trunc(got, 80), trunc(exp, 80)))
			return
		}
		if exp != "" && i > 0 {
			nontrivial = true
		}
	}
	if nontrivial || job.Large != nil {
		r.Distinct("nontrivial", vlib.JSON(job))
	}
}

func trunc(s string, n int) string {
	if len(s) > n {
		return s[:n] + "…"
	}
	return s
}

func tail(s string, n int) string {
	if len(s) > n {
		return s[len(s)-n:]
	}
	return s
}

func TestVerifC04(t *testing.T) {
	r := vlib.NewRun("C04")
	pool := vlib.NewPool("c04", vlib.Workers())
	defer func() {
		pool.Close()
	}()
	var rj c04Job
	replaying := r.LoadReplay(&rj)
	now := time.Now().UnixMilli()
	if replaying && rj.Now != 0 {
		now = rj.Now
	}
	os.Setenv("VERIF_C04_NOW", fmt.Sprint(now)) // before the first worker starts
	c04Init()
	if replaying {
		judgeC04(r, pool, rj)
		r.Finish(t, "model_checking", "replay", nil, nil)
		return
	}
	maxLen := 3
	if r.Thorough() {
		maxLen = 4
	}
	var jobs []c04Job
	for ci := range c04Corpora {
		present, absent := c04Universe(ci)
		univ := append(append([]c04ID{}, present...), absent...)
		var rec func(cur []c04ID, used []bool)
		rec = func(cur []c04ID, used []bool) {
			if len(cur) > 0 {
				for _, via := range []string{"fetcher", "grpc"} {
					for _, hint := range []string{"", "right", "wrong", "unknown"} {
						ids := make([]c04ID, len(cur))
						copy(ids, cur)
						for i := range ids {
							ids[i].Hint = hint
						}
						if hint == "wrong" && len(ids) > 1 {
							ids[0].Hint = "right" // mixed hints inside one request
						}
						jobs = append(jobs, c04Job{Corpus: ci, IDs: ids, Via: via, Now: now})
					}
				}
			}
			if len(cur) == maxLen {
				return
			}
			for i := range univ {
				if used[i] {
					continue
				}
				used[i] = true
				rec(append(cur, univ[i]), used)
				used[i] = false
			}
		}
		rec(nil, make([]bool, len(univ)))
	}
	// large lists at the real chunk constant (1000): all-absent + k present at start/middle/end
	nLarge := 0
	for _, ci := range []int{0, 1, 2, 6} {
		for _, n := range []int{1001, 1500, 2500} {
			for _, abs := range []int{0, 1} {
				for k := 0; k <= 3; k++ {
					places := [][]int{{}}
					if k > 0 {
						places = nil
						for _, start := range []int{0, 500, 1000 - k, 999, n - k} {
							var p []int
							for j := 0; j < k; j++ {
								p = append(p, start+j)
							}
							if p[len(p)-1] < n {
								places = append(places, p)
							}
						}
					}
					if k >= 2 { // present documents in different chunks of the request (a chunk is 1000 IDs)
						spread := []int{0, 1000}
						if k == 3 {
							spread = append(spread, n-1)
						}
						places = append(places, spread)
					}
					for _, p := range places {
						for _, rev := range []bool{false, true} {
							if rev && k == 0 {
								continue
							}
							jobs = append(jobs, c04Job{Corpus: ci, Via: "grpc", Large: &c04Large{N: n, Pos: p, AbsKind: abs, Rev: rev}, Now: now})
							nLarge++
						}
					}
				}
			}
		}
	}
	r.Note("jobs: %d (large lists: %d)", len(jobs), nLarge)
	r.Sample(jobs[len(jobs)/3])
	r.Sample(jobs[len(jobs)-1])
	vlib.Parallel(len(jobs), vlib.Workers(), func(i int) {
		if r.Expired() {
			return
		}
		judgeC04(r, pool, jobs[i])
	})
	// cleanup stores of all workers
	for i := 0; i < vlib.Workers(); i++ {
		var a c04Answer
		pool.Do(c04Job{Corpus: -1}, &a, 30*time.Second)
	}
	ev := r.Get("evaluations")
	r.Finish(t, "model_checking",
		fmt.Sprintf("12 corpora (one in a store running with --sort-docs=false; one with a sealed fraction deleted after the fraction list of the requests was taken; sealed fractions have several 64-byte doc blocks; one corpus seals two multi-block fractions one after the other), built with the scaled block constants of the `small` overlay (4 IDs per block) (active / sealed / overlapping fractions / equal MIDs within one and across two ID blocks / a sealed fraction of recent documents in sparse minutes, which has a minute occupancy map; doc sizes 2..200 B); every list of <=%d distinct IDs over {present IDs} + {absent IDs at every border: (From-1), (From,minRID-1), (From,minRID+1), between, (To,maxRID+1), (To+1,0), 0, 2^60, 2^63, 2^64-1}; hints {none,right,wrong(mixed),unknown}; via Fetcher.FetchDocs and streaming GrpcV1.Fetch; plus lists of 1001/1500/2500 IDs with 0..3 present documents at start/middle/chunk end/end or spread over the chunks, taken from the oldest or from the newest fraction first. Stores live in worker subprocesses; a dying or hanging store is a violation after 3 reproductions. non-trivial = a present document at a position > 0 or a large list", maxLen),
		map[string]any{
			"states":                        len(c04Corpora),
			"transitions":                   ev,
			"traces_validated_against_impl": ev,
		},
		[]string{"a hint naming a wrong/unknown fraction may yield not-found for a present document (not an error, never other bytes)", "hang detection uses a 120 s per-request horizon, confirmed by two re-runs"})
}
