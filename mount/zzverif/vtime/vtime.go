// Package vtime replaces package time in proxy/bulk/seqdb_client.go (overlay `proxy`): everything is
// forwarded except Sleep, which does not sleep and calls a hook (used to flip circuit breakers between
// retry attempts).
package vtime

import "time"

type (
	Duration = time.Duration
	Time     = time.Time
)

const (
	Nanosecond  = time.Nanosecond
	Microsecond = time.Microsecond
	Millisecond = time.Millisecond
	Second      = time.Second
	Minute      = time.Minute
	Hour        = time.Hour
)

var SleepHook func(d Duration)

func Now() Time                 { return time.Now() }
func Since(t Time) Duration     { return time.Since(t) }
func Until(t Time) Duration     { return time.Until(t) }
func After(d Duration) <-chan Time { return time.After(d) }
func Sleep(d Duration) {
	if SleepHook != nil {
		SleepHook(d)
	}
}
