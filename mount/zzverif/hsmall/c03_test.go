//go:build verif_small

package hsmall

// C03 — answers do not depend on fraction form: active = sealed = reloaded = any cache.
// Built with the `small` overlay (IDsPerBlock=IDsBlockSize=4, LIDBlockCap=4, RegularBlockSize=64) so
// that every on-disk block boundary is crossed by corpora of <= 13 documents, which are enumerated
// exhaustively by shape. Thorough adds fixed large shapes is left to the real-constant harness (C02).

import (
	"context"
	"fmt"
	"sort"
	"strings"
	"testing"

	"github.com/ozontech/seq-db/cache"
	"github.com/ozontech/seq-db/consts"
	"github.com/ozontech/seq-db/frac"
	"github.com/ozontech/seq-db/frac/processor"
	"github.com/ozontech/seq-db/parser"
	"github.com/ozontech/seq-db/seq"
	"github.com/ozontech/seq-db/zzverif/refdb"
	"github.com/ozontech/seq-db/zzverif/vfrac"
	"github.com/ozontech/seq-db/zzverif/vlib"
)

type c03Shape struct {
	N        int    `json:"n"`        // documents
	P        int    `json:"p"`        // postings of the hot token (first P docs in ID order)
	Arrival  string `json:"arrival"`  // asc | desc | inter
	Bulks    int    `json:"bulks"`    // 1 | 2 | N (one doc per bulk)
	Dict     int    `json:"dict"`     // number of extra dictionary tokens in field d (spread over docs)
	DictLen  int    `json:"dict_len"` // length of dictionary tokens
	SkipSort bool   `json:"skip_sort"`
	Zstd     int    `json:"zstd"`
	Run      int    `json:"run,omitempty"` // documents per timestamp (0 = 2): longer runs of equal MIDs cross ID-block borders
}

func (s c03Shape) run() int {
	if s.Run > 0 {
		return s.Run
	}
	return 2
}

func (s c03Shape) docs() []refdb.Doc {
	docs := make([]refdb.Doc, s.N)
	for i := 0; i < s.N; i++ {
		// ID order: MID pairs share a timestamp, RIDs distinct
		id := refdb.ID{MID: uint64(vfrac.BaseMID + i/s.run()), RID: uint64(50 + (i*7)%13)}
		toks := []refdb.Tok{{F: "u", V: fmt.Sprintf("v%02d", i)}, {F: "n", V: fmt.Sprint(i - 3)}}
		if i < s.P {
			toks = append(toks, refdb.Tok{F: "k", V: "hot"})
		}
		if i%3 == 0 {
			toks = append(toks, refdb.Tok{F: "k", V: "c3"})
		}
		if i%2 == 1 {
			toks = append(toks, refdb.Tok{F: "g", V: fmt.Sprintf("g%d", i%3)})
		}
		docs[i] = refdb.Doc{ID: id, Body: fmt.Sprintf(`{"i":%d,"b":"%s"}`, i, vfrac.Pad((i*11)%40)), Toks: toks}
	}
	// dictionary tokens in field d, token j on doc j%N
	for j := 0; j < s.Dict; j++ {
		v := fmt.Sprintf("%c%s", 'a'+j, strings.Repeat("z", s.DictLen-1))
		d := &docs[j%s.N]
		d.Toks = append(d.Toks, refdb.Tok{F: "d", V: v})
	}
	for i := range docs {
		docs[i].Toks = vfrac.WithExists(docs[i].Toks)
	}
	return docs
}

func (s c03Shape) arrival(docs []refdb.Doc) []refdb.Doc {
	n := len(docs)
	res := make([]refdb.Doc, 0, n)
	switch s.Arrival {
	case "asc":
		res = append(res, docs...)
	case "desc":
		for i := n - 1; i >= 0; i-- {
			res = append(res, docs[i])
		}
	default: // interleave ends
		for i, j := 0, n-1; i <= j; i, j = i+1, j-1 {
			res = append(res, docs[i])
			if i != j {
				res = append(res, docs[j])
			}
		}
	}
	return res
}

type form struct {
	name  string
	f     frac.Fraction
	evict func()
	ctx   context.Context // nil: context.Background()
}

// evictCtx is a request context whose Done() runs a cleaning pass of the fraction's caches: the store code polls
// ctx.Done() between the steps of one request, so blocks are evicted INSIDE the request, between two accesses.
type evictCtx struct {
	context.Context
	cl *cache.Cleaner
}

func (c evictCtx) Done() <-chan struct{} {
	st := cache.CleanStat{}
	c.cl.Cleanup(&st)
	return nil
}

// answerCtx is the request context of the current answer() call (the harness runs one shape per goroutine, so it
// is passed explicitly through formCtx).
func formCtx(f form) context.Context {
	if f.ctx != nil {
		return f.ctx
	}
	return context.Background()
}

type c03Req struct {
	Kind     string `json:"kind"` // search | hist | agg | fetch
	Query    string `json:"query,omitempty"`
	From     uint64 `json:"from,omitempty"`
	To       uint64 `json:"to,omitempty"`
	Asc      bool   `json:"asc,omitempty"`
	Limit    int    `json:"limit,omitempty"`
	Interval uint64 `json:"interval,omitempty"`
	Agg      string `json:"agg,omitempty"`
	FetchIdx []int  `json:"fetch_idx,omitempty"`
}

type c03Case struct {
	Shape c03Shape `json:"shape"`
	Req   c03Req   `json:"req"`
}

func wildcardLit(field string) *parser.Literal {
	return &parser.Literal{Field: field, Terms: []parser.Term{{Kind: parser.TermSymbol, Data: "*"}}}
}

func aggQuery(name string) processor.AggQuery {
	switch name {
	case "count:g":
		return processor.AggQuery{Func: seq.AggFuncCount, GroupBy: wildcardLit("g")}
	case "count:u:i2":
		return processor.AggQuery{Func: seq.AggFuncCount, GroupBy: wildcardLit("u"), Interval: 2}
	case "unique:g":
		return processor.AggQuery{Func: seq.AggFuncUnique, GroupBy: wildcardLit("g")}
	case "sum:n":
		return processor.AggQuery{Func: seq.AggFuncSum, Field: wildcardLit("n")}
	case "quantile:n:g":
		return processor.AggQuery{Func: seq.AggFuncQuantile, Field: wildcardLit("n"), GroupBy: wildcardLit("g"), Quantiles: []float64{0.5, 0.9}}
	case "max:n:g:i1":
		return processor.AggQuery{Func: seq.AggFuncMax, Field: wildcardLit("n"), GroupBy: wildcardLit("g"), Interval: 1}
	}
	panic(name)
}

func canonAggs(aggs []seq.AggregatableSamples) string {
	var b strings.Builder
	for _, a := range aggs {
		fmt.Fprintf(&b, "NE=%d{", a.NotExists)
		var keys []string
		m := map[string]*seq.SamplesContainer{}
		for bin, h := range a.SamplesByBin {
			k := fmt.Sprintf("%d|%s", bin.MID, bin.Token)
			keys = append(keys, k)
			m[k] = h
		}
		sort.Strings(keys)
		for _, k := range keys {
			h := m[k]
			s := append([]float64{}, h.Samples...)
			sort.Float64s(s)
			fmt.Fprintf(&b, "%s:(min=%v max=%v sum=%v total=%d ne=%d s=%v)", k, h.Min, h.Max, h.Sum, h.Total, h.NotExists, s)
		}
		b.WriteString("}")
	}
	return b.String()
}

func canonHist(h map[seq.MID]uint64) string {
	var keys []uint64
	for k := range h {
		keys = append(keys, uint64(k))
	}
	sort.Slice(keys, func(i, j int) bool { return keys[i] < keys[j] })
	var b strings.Builder
	for _, k := range keys {
		if h[seq.MID(k)] != 0 {
			fmt.Fprintf(&b, "%d:%d ", k, h[seq.MID(k)])
		}
	}
	return b.String()
}

func canonRefHist(h map[uint64]uint64) string {
	m := map[seq.MID]uint64{}
	for k, v := range h {
		m[seq.MID(k)] = v
	}
	return canonHist(m)
}

var c03Queries map[string]vfrac.ParsedQuery

func c03QueryList() []refdb.Query {
	hot := refdb.Lit{Field: "k", Pattern: "hot"}
	c3 := refdb.Lit{Field: "k", Pattern: "c3"}
	return []refdb.Query{
		refdb.All{}, hot, c3, refdb.Not{X: c3},
		refdb.Lit{Field: "u", Pattern: "v0*"},
		refdb.And{L: hot, R: refdb.Not{X: refdb.Lit{Field: "u", Pattern: "v01"}}},
		refdb.Or{L: refdb.Lit{Field: "u", Pattern: "v1*"}, R: c3},
		refdb.Lit{Field: "d", Pattern: "*"},
		refdb.Lit{Field: "d", Pattern: "c*"},
		refdb.Lit{Field: "d", Pattern: "*z"},
		refdb.Rng{R: refdb.Range{Field: "d", From: "b", To: "e", IncFrom: true, IncTo: false}},
		refdb.Rng{R: refdb.Range{Field: "n", From: "0", To: "5", IncFrom: true, IncTo: true}},
		refdb.And{L: refdb.Not{X: hot}, R: refdb.Lit{Field: "_exists_", Pattern: "g"}},
		refdb.Lit{Field: "u", Pattern: "v*3"},
	}
}

func init() {
	c03Queries = map[string]vfrac.ParsedQuery{}
	for _, q := range c03QueryList() {
		pq, err := vfrac.Parse(q)
		if err != nil {
			panic(err)
		}
		c03Queries[pq.Text] = pq
	}
}

// answer executes one request on one form and returns a canonical answer string.
// answer runs one request on one fraction form; a panic in the store code is an answer too (an error), so
// that it is reported with its shape and request instead of killing the run.
func answer(f frac.Fraction, docs []refdb.Doc, req c03Req) (res string, err error) {
	return answerCtx(context.Background(), f, docs, req)
}

func answerCtx(ctx context.Context, f frac.Fraction, docs []refdb.Doc, req c03Req) (res string, err error) {
	if p := vlib.Catch(func() { res, err = answer0(ctx, f, docs, req) }); p != nil {
		msg := fmt.Sprint(p)
		if i := strings.IndexByte(msg, '\n'); i > 0 {
			msg = msg[:i]
		}
		return "", fmt.Errorf("panic: %s", msg)
	}
	return res, err
}

func answer0(ctx context.Context, f frac.Fraction, docs []refdb.Doc, req c03Req) (string, error) {
	switch req.Kind {
	case "search", "hist", "agg":
		pq := c03Queries[req.Query]
		p := vfrac.Params(pq, req.From, req.To, req.Asc, req.Limit, true)
		if req.Kind == "hist" {
			p.HistInterval = req.Interval
		}
		if req.Kind == "agg" {
			p.AggQ = []processor.AggQuery{aggQuery(req.Agg)}
		}
		qpr, err := vfrac.SearchCtx(ctx, f, p)
		if err != nil {
			return "", err
		}
		ids := vfrac.RefIDs(qpr.IDs.IDs())
		return fmt.Sprintf("ids=%v total=%d hist=[%s] aggs=%s", ids, qpr.Total, canonHist(qpr.Histogram), canonAggs(qpr.Aggs)), nil
	case "fetch":
		var ids []seq.ID
		for _, i := range req.FetchIdx {
			ids = append(ids, vfrac.SeqID(docs[i].ID))
		}
		res, err := vfrac.FetchCtx(ctx, f, ids)
		if err != nil {
			return "", err
		}
		var b strings.Builder
		for _, d := range res {
			fmt.Fprintf(&b, "%q,", d)
		}
		return b.String(), nil
	}
	panic(req.Kind)
}

// expected returns the refdb answer for the parts the reference model defines ("" = not defined).
func expected(docs []refdb.Doc, req c03Req) string {
	switch req.Kind {
	case "search", "hist":
		pq := c03Queries[req.Query]
		ids, total := refdb.Search(docs, pq.Ref, req.From, req.To, req.Asc, req.Limit)
		h := ""
		if req.Kind == "hist" {
			h = canonRefHist(refdb.Histogram(docs, pq.Ref, req.From, req.To, req.Interval))
		}
		if ids == nil {
			ids = []refdb.ID{}
		}
		return fmt.Sprintf("ids=%v total=%d hist=[%s] aggs=", ids, total, h)
	case "fetch":
		var b strings.Builder
		for _, i := range req.FetchIdx {
			fmt.Fprintf(&b, "%q,", docs[i].Body)
		}
		return b.String()
	}
	return ""
}

func sealParams(z int) frac.SealParams {
	return frac.SealParams{IDsZstdLevel: z, LIDsZstdLevel: z, TokenListZstdLevel: z, DocsPositionsZstdLevel: z, TokenTableZstdLevel: z, DocBlocksZstdLevel: z, DocBlockSize: 64}
}

func requestsFor(s c03Shape, docs []refdb.Doc) []c03Req {
	var reqs []c03Req
	maxMID := uint64(vfrac.BaseMID + (s.N-1)/s.run())
	var qs []string
	for _, q := range c03QueryList() {
		qs = append(qs, q.Render())
	}
	for _, q := range qs {
		for _, asc := range []bool{false, true} {
			reqs = append(reqs, c03Req{Kind: "search", Query: q, From: 0, To: vfrac.MaxMID, Asc: asc, Limit: 100})
		}
		reqs = append(reqs, c03Req{Kind: "search", Query: q, From: 0, To: vfrac.MaxMID, Limit: 1})
	}
	// time borders at every MID (crosses ID-block borders at 4 IDs per block), 4 queries
	for _, q := range []string{qs[0], qs[1], qs[3], qs[6]} {
		for from := uint64(vfrac.BaseMID); from <= maxMID+1; from++ {
			for _, to := range []uint64{from, from + 1, maxMID, vfrac.MaxMID} {
				if to < from {
					continue
				}
				reqs = append(reqs, c03Req{Kind: "search", Query: q, From: from, To: to, Asc: (from+to)%2 == 0, Limit: 100})
			}
		}
	}
	for _, q := range []string{qs[0], qs[1], qs[3]} {
		for _, iv := range []uint64{1, 2} {
			reqs = append(reqs, c03Req{Kind: "hist", Query: q, From: 0, To: vfrac.MaxMID, Limit: 2, Interval: iv})
		}
	}
	for _, a := range []string{"count:g", "count:u:i2", "unique:g", "sum:n", "quantile:n:g", "max:n:g:i1"} {
		for _, q := range []string{qs[0], qs[3]} {
			reqs = append(reqs, c03Req{Kind: "agg", Query: q, From: 0, To: vfrac.MaxMID, Limit: 0, Agg: a, Asc: len(a)%2 == 0})
		}
	}
	// fetch: all in order, reversed, every single one, and pairs across doc-block borders
	all := make([]int, s.N)
	rev := make([]int, s.N)
	for i := range all {
		all[i] = i
		rev[i] = s.N - 1 - i
	}
	reqs = append(reqs, c03Req{Kind: "fetch", FetchIdx: all}, c03Req{Kind: "fetch", FetchIdx: rev})
	for i := 0; i < s.N; i++ {
		reqs = append(reqs, c03Req{Kind: "fetch", FetchIdx: []int{i}})
		if i+4 < s.N {
			reqs = append(reqs, c03Req{Kind: "fetch", FetchIdx: []int{i + 4, i}})
		}
	}
	return reqs
}

// runShape builds all forms of one corpus and compares every request across them and with refdb.
// only != nil restricts to one request (replay).
func runShape(r *vlib.Run, env *vfrac.Env, s c03Shape, only *c03Req) {
	docs := s.docs()
	arr := s.arrival(docs)
	cfg := &frac.Config{SkipSortDocs: s.SkipSort, KeepMetaFile: false}
	a := env.NewActive(env.NextBase(), cfg)
	per := len(arr)
	switch s.Bulks {
	case 1:
	case 2:
		per = (len(arr) + 1) / 2
	default:
		per = 1
	}
	for pos := 0; pos < len(arr); pos += per {
		end := min(pos+per, len(arr))
		if err := env.Append(a, arr[pos:end]); err != nil {
			r.Violation(fmt.Sprintf("append shape=%+v", s), c03Case{Shape: s}, err.Error())
			return
		}
	}
	reqs := requestsFor(s, docs)
	if only != nil {
		reqs = []c03Req{*only}
	}
	// active answers first (the active fraction is released by sealing)
	activeAns := make([]string, len(reqs))
	for i, q := range reqs {
		ans, err := answer(a, docs, q)
		if err != nil {
			ans = "ERROR: " + err.Error()
		}
		activeAns[i] = ans
	}
	sealed, err := env.Seal(a, sealParams(s.Zstd), nil)
	if err != nil {
		r.Violation(fmt.Sprintf("seal shape=%+v", s), c03Case{Shape: s}, err.Error())
		return
	}
	a.Release()
	info := *sealed.Info()
	tiny := cache.NewCleaner(1, nil)
	tiny2 := cache.NewCleaner(1, nil)
	tiny3 := cache.NewCleaner(1, nil)
	evict := func(cl *cache.Cleaner) func() {
		return func() { st := cache.CleanStat{}; cl.Cleanup(&st) }
	}
	forms := []form{
		{"sealed-preloaded", sealed, nil, nil},
		{"reopened-header", env.Reopen(a.BaseFileName, nil, cfg, nil), nil, nil},
		{"reopened-cachedinfo", env.Reopen(a.BaseFileName, &info, cfg, nil), nil, nil},
		{"reopened-header-tinycache", env.Reopen(a.BaseFileName, nil, cfg, tiny), evict(tiny), nil},
		{"reopened-cachedinfo-tinycache", env.Reopen(a.BaseFileName, &info, cfg, tiny2), evict(tiny2), nil},
		{"reopened-header-evicted-inside-requests", env.Reopen(a.BaseFileName, nil, cfg, tiny3), nil, evictCtx{context.Background(), tiny3}},
	}
	for i, q := range reqs {
		r.Add("evaluations", int64(len(forms)+1))
		want := expected(docs, q)
		c := c03Case{Shape: s, Req: q}
		sig := func(kind, form string) string {
			return fmt.Sprintf("%s form=%s shape=%s req=%s", kind, form, vlib.JSON(s), vlib.JSON(q))
		}
		if want != "" && activeAns[i] != want {
			r.Violation(sig("vs-refdb", "active"), c, fmt.Sprintf("got  %s\nwant %s", activeAns[i], want))
		}
		for _, f := range forms {
			ans, err := answerCtx(formCtx(f), f.f, docs, q)
			if err != nil {
				ans = "ERROR: " + err.Error()
			}
			if f.evict != nil {
				f.evict()
			}
			if ans != activeAns[i] {
				r.Violation(sig("form-differs", f.name), c, fmt.Sprintf("%s: %s\nactive: %s", f.name, ans, activeAns[i]))
			}
		}
		r.Distinct("answers", activeAns[i])
	}
	for _, f := range forms[1:] {
		f.f.(*frac.Sealed).Suicide() // releases caches; files may already be gone
	}
	sealed.Suicide()
	r.Add("corpora", 1)
	if s.P > consts.LIDBlockCap {
		r.Add("corpora_postings_straddle_lid_blocks", 1)
	}
	if s.N+1 > consts.IDsPerBlock {
		r.Add("corpora_ids_straddle_id_blocks", 1)
	}
	if s.Dict*s.DictLen > consts.RegularBlockSize {
		r.Add("corpora_dictionary_over_one_block", 1)
	}
}

func TestVerifC03(t *testing.T) {
	if consts.IDsPerBlock != 4 || consts.LIDBlockCap != 4 || consts.RegularBlockSize != 64 {
		t.Fatalf("small overlay not active: %d %d %d", consts.IDsPerBlock, consts.LIDBlockCap, consts.RegularBlockSize)
	}
	r := vlib.NewRun("C03")
	env := vfrac.NewEnv("c03")
	defer env.Close()
	var rc c03Case
	if r.LoadReplay(&rc) {
		runShape(r, env, rc.Shape, &rc.Req)
		r.Finish(t, "model_checking", "replay", nil, nil)
		return
	}
	var shapes []c03Shape
	maxN := 13
	idx := 0
	for n := 1; n <= maxN; n++ {
		for p := 0; p <= min(n, 9); p++ {
			for _, arr := range []string{"asc", "desc", "inter"} {
				for _, bulks := range []int{1, 2, 99} {
					if n == 1 && bulks != 1 {
						continue
					}
					// dictionary size / token length / zstd / skip-sort rotate with the index so that every value
					// meets every (n,p) region; thorough crosses skip-sort fully
					dict := idx % 13
					dl := 5 + idx%4
					z := []int{-5, 1, 3}[idx%3]
					for _, ss := range []bool{false, true} {
						shapes = append(shapes, c03Shape{N: n, P: p, Arrival: arr, Bulks: bulks, Dict: dict, DictLen: dl, SkipSort: ss, Zstd: z})
						if r.Thorough() { // thorough: every zstd level and a second dictionary shape for every (n,p,arrival,bulks)
							for _, z2 := range []int{-5, 1, 3} {
								if z2 != z {
									shapes = append(shapes, c03Shape{N: n, P: p, Arrival: arr, Bulks: bulks, Dict: (dict + 6) % 13, DictLen: 5 + (dl+1)%4, SkipSort: ss, Zstd: z2})
								}
							}
						}
					}
					idx++
				}
			}
		}
	}
	// runs of equal timestamps longer than an ID block (4 and "all equal"): only the RIDs order them
	for n := 4; n <= maxN; n++ {
		for _, run := range []int{4, 13} {
			for _, arr := range []string{"asc", "inter"} {
				for _, ss := range []bool{false, true} {
					shapes = append(shapes, c03Shape{N: n, P: n / 2, Arrival: arr, Bulks: 1, Dict: 0, DictLen: 5, SkipSort: ss, Zstd: 1, Run: run})
				}
			}
		}
	}
	// dictionary-directed shapes: every dictionary size 1..12 x token length 5..8 (exactly fills / overflows 64 B)
	for dict := 1; dict <= 12; dict++ {
		for dl := 5; dl <= 8; dl++ {
			shapes = append(shapes, c03Shape{N: 5, P: 5, Arrival: "inter", Bulks: 2, Dict: dict, DictLen: dl, SkipSort: dict%2 == 0, Zstd: 1})
		}
	}
	r.Sample(c03Case{Shape: shapes[len(shapes)/2], Req: requestsFor(shapes[len(shapes)/2], shapes[len(shapes)/2].docs())[7]})
	vlib.Parallel(len(shapes), 0, func(i int) {
		if r.Expired() {
			return
		}
		r.Distinct("nontrivial", vlib.JSON(shapes[i]))
		runShape(r, env, shapes[i], nil)
	})
	ev := r.Get("evaluations")
	r.Finish(t, "model_checking",
		"under scaled block constants (4 IDs/block, 4 LIDs/block, 64-byte token blocks): every corpus shape n=1..13 x hot-token postings p=0..9 x arrival order {asc,desc,interleaved} x bulk split {1,2,per-doc}, x skip-sort on/off, with dictionary size/token length/zstd level rotating (thorough: all zstd levels crossed), plus all dictionary sizes 1..12 x token lengths 5..8, plus n=4..13 with 4 or all documents per timestamp (equal-MID runs across ID-block borders; two per timestamp otherwise); each answered by 7 forms (active, sealed-preloaded, reopened via header, reopened via cached info, both reopened forms with a 1-byte cache budget evicted after every request, and a reopened form whose caches are evicted INSIDE every request at each of its context polls); requests: 14 queries x orders x limits, time borders at every MID, histograms, 6 aggregation kinds, fetch lists. distinct_nontrivial = distinct corpus shapes",
		map[string]any{
			"states":                        r.Get("corpora"),
			"transitions":                   ev,
			"traces_validated_against_impl": ev,
			"distinct_answers":              r.DistinctCount("answers"),
		},
		[]string{"block-size constants are scaled by the overlay; the code uses them only as sizes", "aggregations are compared across forms here and against refdb in C06", "fetch of absent IDs is C04"})
}
