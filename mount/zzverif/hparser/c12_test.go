package hparser

// C12 — query parsing is total and preserves the boolean meaning of the query.
// (a) totality: every string of <= N lexemes over a lexeme alphabet chosen per lexer/parser branch, for
//     ParseSeqQL / ParseQuery (nil and full mapping with every mapping type) and ParseAggregationFilter;
//     each call under recover; batches run in worker subprocesses so that a non-terminating input is
//     isolated by bisection.
// (b) meaning: every boolean tree with <= 4 leaves over 3 atoms (NOT at every node), rendered with
//     minimal and with full parentheses in both languages; the returned AST (AND/OR/NAND/NOT) evaluated
//     under all 8 assignments vs the tree's own truth table; in(...) vs disjunction; words vs conjunction.

import (
	"context"
	"encoding/json"
	"fmt"
	"github.com/ozontech/seq-db/conf"
	"os"
	"strings"
	"testing"
	"time"

	"github.com/ozontech/seq-db/consts"
	"github.com/ozontech/seq-db/fracmanager"
	"github.com/ozontech/seq-db/parser"
	pb "github.com/ozontech/seq-db/pkg/storeapi"
	"github.com/ozontech/seq-db/seq"
	"github.com/ozontech/seq-db/storeapi"
	"github.com/ozontech/seq-db/zzverif/refdb"
	"github.com/ozontech/seq-db/zzverif/vfrac"
	"github.com/ozontech/seq-db/zzverif/vlib"
	"google.golang.org/grpc/metadata"
)

var c12Mapping = seq.Mapping{
	"k": seq.NewSingleType(seq.TokenizerTypeKeyword, "", 0),
	"t": seq.NewSingleType(seq.TokenizerTypeText, "", 0),
	"p": seq.NewSingleType(seq.TokenizerTypePath, "", 0),
	"e": seq.NewSingleType(seq.TokenizerTypeExists, "", 0),
	"o": seq.NewSingleType(seq.TokenizerTypeObject, "", 0),
	"g": seq.NewSingleType(seq.TokenizerTypeTags, "", 0),
	"n": seq.NewSingleType(seq.TokenizerTypeNested, "", 0),
	"m": {
		Main: seq.MappingType{TokenizerType: seq.TokenizerTypeText},
		All:  []seq.MappingType{{Title: "m", TokenizerType: seq.TokenizerTypeText}, {Title: "m.keyword", TokenizerType: seq.TokenizerTypeKeyword, MaxSize: 8}},
	},
	"m.keyword": seq.NewSingleType(seq.TokenizerTypeKeyword, "m.keyword", 8),
}

// lexeme alphabet: one per lexer / parser branch
var c12Lexemes = []string{
	"k", "t", "p", "e", "o", "g", "n", "m", "u", "_exists_",
	":", "(", ")", "[", "]", "{", "}", ",", "|", "*", `"`, "'", "`", `\`, "#",
	"and", "or", "not", "in", "to", "fields", "except",
	"ab", "12", " ", "\n", "\xff", "", "-",
}

type c12Job struct {
	Len   int   `json:"len"`
	Lo    int64 `json:"lo"`
	Hi    int64 `json:"hi"`
	Fixed []int `json:"fixed,omitempty"` // fixed prefix of lexeme indexes (the enumeration covers the remaining positions)
	// Deep != "": one deeply nested query "<shape>:<n>:<parser>" (shape paren | not) instead of an enumeration
	Deep string `json:"deep,omitempty"`
}

// c12DeepQuery builds the deeply nested query of a descriptor "<shape>:<n>:<parser>".
func c12DeepQuery(desc string) (q, lang string) {
	var shape string
	var n int
	parts := strings.Split(desc, ":")
	shape, lang = parts[0], parts[2]
	fmt.Sscanf(parts[1], "%d", &n)
	kw := "not "
	if lang == "legacy" {
		kw = "NOT "
	}
	switch shape {
	case "paren":
		return strings.Repeat("(", n) + "k:a" + strings.Repeat(")", n), lang
	case "not":
		return strings.Repeat(kw, n) + "k:a", lang
	}
	panic(desc)
}

type c12Panic struct {
	Input  string `json:"input"`
	Parser string `json:"parser"`
	Msg    string `json:"msg"`
}

type c12Res struct {
	Count  int64      `json:"count"`
	Panics []c12Panic `json:"panics"`
	OKs    int64      `json:"oks"`
}

func c12String(fixed []int, idx int64, n int) string {
	var b strings.Builder
	for _, f := range fixed {
		b.WriteString(c12Lexemes[f])
	}
	base := int64(len(c12Lexemes))
	digits := make([]int, n)
	for i := n - 1; i >= 0; i-- {
		digits[i] = int(idx % base)
		idx /= base
	}
	for _, d := range digits {
		b.WriteString(c12Lexemes[d])
	}
	return b.String()
}

func c12ParseAll(q string, onPanic func(p c12Panic)) (oks int) {
	try := func(name string, fn func() error) {
		defer func() {
			if r := recover(); r != nil {
				onPanic(c12Panic{Input: q, Parser: name, Msg: fmt.Sprint(r)})
			}
		}()
		if fn() == nil {
			oks++
		}
	}
	try("seqql/full", func() error { _, err := parser.ParseSeqQL(q, c12Mapping); return err })
	try("seqql/nil", func() error { _, err := parser.ParseSeqQL(q, nil); return err })
	try("legacy/full", func() error { _, err := parser.ParseQuery(q, c12Mapping); return err })
	try("legacy/nil", func() error { _, err := parser.ParseQuery(q, nil); return err })
	try("aggfilter", func() error { _, err := parser.ParseAggregationFilter(q); return err })
	return
}

func c12Handle(raw json.RawMessage) any {
	var job c12Job
	if err := json.Unmarshal(raw, &job); err != nil {
		panic(err)
	}
	var res c12Res
	if job.Deep != "" {
		q, lang := c12DeepQuery(job.Deep)
		m := seq.Mapping{"k": seq.NewSingleType(seq.TokenizerTypeKeyword, "", 0)}
		if p := vlib.Catch(func() {
			if lang == "legacy" {
				parser.ParseQuery(q, m)
			} else {
				parser.ParseSeqQL(q, m)
			}
		}); p != nil {
			res.Panics = append(res.Panics, c12Panic{Input: job.Deep, Parser: lang, Msg: fmt.Sprint(p)})
		}
		res.Count = 1
		return res
	}
	seen := map[string]bool{}
	for i := job.Lo; i < job.Hi; i++ {
		q := c12String(job.Fixed, i, job.Len)
		res.Count++
		res.OKs += int64(c12ParseAll(q, func(p c12Panic) {
			key := p.Parser + "|" + c12NormMsg(p.Msg)
			if !seen[key] && len(res.Panics) < 50 {
				seen[key] = true
				res.Panics = append(res.Panics, p)
			}
		}))
	}
	return res
}

func TestVerifWorker(t *testing.T) {
	vlib.ServeWorker(map[string]vlib.Handler{"c12": c12Handle})
}

func c12DeathCause(stderr string) string {
	for _, l := range strings.Split(stderr, "\n") {
		if strings.HasPrefix(l, "fatal error:") || strings.HasPrefix(l, "panic:") {
			return strings.TrimSpace(l)
		}
	}
	return "unknown"
}

func tailN(s string, n int) string {
	if len(s) > n {
		return s[len(s)-n:]
	}
	return s
}

func c12NormMsg(m string) string {
	// keep the message shape, drop the input-specific parts
	if i := strings.Index(m, "lexer is not end"); i >= 0 {
		return "BUG: lexer is not end"
	}
	out := []byte{}
	prev := false
	for i := 0; i < len(m); i++ {
		c := m[i]
		if c >= '0' && c <= '9' {
			if !prev {
				out = append(out, 'N')
			}
			prev = true
			continue
		}
		prev = false
		out = append(out, c)
	}
	if len(out) > 100 {
		out = out[:100]
	}
	return string(out)
}

// ---- (b) meaning ----

type bnode struct {
	op   string // "atom" | "and" | "or"
	atom int
	l, r *bnode
	nots int
}

func (n *bnode) eval(a [3]bool) bool {
	var v bool
	switch n.op {
	case "atom":
		v = a[n.atom]
	case "and":
		v = n.l.eval(a) && n.r.eval(a)
	case "or":
		v = n.l.eval(a) || n.r.eval(a)
	}
	if n.nots%2 == 1 {
		v = !v
	}
	return v
}

var c12Atoms = []string{"k:a", "k:b", "k:c"}

func prec(n *bnode) int {
	if n.nots > 0 {
		return 3
	}
	switch n.op {
	case "atom":
		return 4
	case "and":
		return 2
	}
	return 1
}

// render: full = parentheses around every binary node; otherwise only where precedence requires them
// (not > and > or, operators left-associative).
func (n *bnode) render(full bool, kw func(string) string) string {
	var core string
	switch n.op {
	case "atom":
		core = c12Atoms[n.atom]
	default:
		l, r := n.l.render(full, kw), n.r.render(full, kw)
		myPrec := 2
		if n.op == "or" {
			myPrec = 1
		}
		if !full {
			if prec(n.l) < myPrec {
				l = "(" + l + ")"
			}
			if prec(n.r) <= myPrec { // right operand of the same precedence needs parentheses (left-assoc)
				r = "(" + r + ")"
			}
		}
		core = l + " " + kw(n.op) + " " + r
		if full {
			core = "(" + core + ")"
		}
	}
	for i := 0; i < n.nots; i++ {
		if n.op != "atom" && !full && i == 0 {
			core = "(" + core + ")"
		}
		core = kw("not") + " " + core
	}
	return core
}

// evalASTDoc evaluates the AST on a document given as the set of "field:value" tokens it holds.
func evalASTDoc(n *parser.ASTNode, doc map[string]bool) (bool, error) {
	switch t := n.Value.(type) {
	case *parser.Literal:
		if len(t.Terms) != 1 {
			return false, fmt.Errorf("unexpected terms %v", t.Terms)
		}
		return doc[t.Field+":"+t.Terms[0].Data], nil
	case *parser.Logical:
		var vs []bool
		for _, c := range n.Children {
			v, err := evalASTDoc(c, doc)
			if err != nil {
				return false, err
			}
			vs = append(vs, v)
		}
		switch t.Operator {
		case parser.LogicalAnd:
			return vs[0] && vs[1], nil
		case parser.LogicalOr:
			return vs[0] || vs[1], nil
		case parser.LogicalNAnd:
			return !vs[0] && vs[1], nil
		case parser.LogicalNot:
			return !vs[0], nil
		}
	}
	return false, fmt.Errorf("unknown node %T", n.Value)
}

func evalAST(n *parser.ASTNode, a [3]bool) (bool, error) {
	switch t := n.Value.(type) {
	case *parser.Literal:
		if len(t.Terms) != 1 {
			return false, fmt.Errorf("unexpected terms %v", t.Terms)
		}
		switch t.Field + ":" + t.Terms[0].Data {
		case "k:a":
			return a[0], nil
		case "k:b":
			return a[1], nil
		case "k:c":
			return a[2], nil
		}
		return false, fmt.Errorf("unexpected literal %s", t.String())
	case *parser.Logical:
		var vs []bool
		for _, c := range n.Children {
			v, err := evalAST(c, a)
			if err != nil {
				return false, err
			}
			vs = append(vs, v)
		}
		switch t.Operator {
		case parser.LogicalAnd:
			return vs[0] && vs[1], nil
		case parser.LogicalOr:
			return vs[0] || vs[1], nil
		case parser.LogicalNAnd: // eval tree: NewNAnd(children[0] = negative, children[1] = regular)
			return !vs[0] && vs[1], nil
		case parser.LogicalNot:
			return !vs[0], nil
		}
	}
	return false, fmt.Errorf("unknown node %T", n.Value)
}

type c12Case struct {
	Kind   string `json:"kind"` // totality | meaning
	Input  string `json:"input"`
	Parser string `json:"parser,omitempty"`
}

func c12JudgeMeaning(r *vlib.Run, text, lang string, truth func(a [3]bool) bool) {
	r.Add("evaluations", 1)
	var root *parser.ASTNode
	var err error
	p := vlib.Catch(func() {
		if lang == "seqql" {
			var q parser.SeqQLQuery
			q, err = parser.ParseSeqQL(text, nil)
			root = q.Root
		} else {
			root, err = parser.ParseQuery(text, nil)
		}
	})
	c := c12Case{Kind: "meaning", Input: text, Parser: lang}
	if p != nil {
		r.Violation(fmt.Sprintf("meaning %s panic %s", lang, c12NormMsg(fmt.Sprint(p))), c, fmt.Sprintf("%q: %v", text, p))
		return
	}
	if err != nil {
		r.Violation(fmt.Sprintf("meaning %s: well-formed query rejected: %q", lang, text), c, err.Error())
		return
	}
	for m := 0; m < 8; m++ {
		a := [3]bool{m&1 != 0, m&2 != 0, m&4 != 0}
		got, err := evalAST(root, a)
		if err != nil {
			r.Violation(fmt.Sprintf("meaning %s: unexpected AST for %q", lang, text), c, err.Error())
			return
		}
		if got != truth(a) {
			r.Violation(fmt.Sprintf("meaning %s: %q", lang, text), c, fmt.Sprintf("assignment a=%v b=%v c=%v: AST %s evaluates to %v, the written expression to %v", a[0], a[1], a[2], root.String(), got, truth(a)))
			return
		}
	}
	r.Distinct("nontrivial", lang+"|"+text)
}

func c12Trees(leaves int, fn func(*bnode)) {
	// all trees with exactly `leaves` leaves, NOT (0/1) at every node, double NOT at the root
	var build func(n int) []*bnode
	memo := map[int][]*bnode{}
	build = func(n int) []*bnode {
		if t, ok := memo[n]; ok {
			return t
		}
		var res []*bnode
		if n == 1 {
			for a := 0; a < 3; a++ {
				for nots := 0; nots <= 1; nots++ {
					res = append(res, &bnode{op: "atom", atom: a, nots: nots})
				}
			}
		} else {
			for k := 1; k < n; k++ {
				for _, l := range build(k) {
					for _, rr := range build(n - k) {
						for _, op := range []string{"and", "or"} {
							for nots := 0; nots <= 1; nots++ {
								res = append(res, &bnode{op: op, l: l, r: rr, nots: nots})
							}
						}
					}
				}
			}
		}
		memo[n] = res
		return res
	}
	for _, t := range build(leaves) {
		fn(t)
		if t.nots == 1 { // double NOT at the root
			d := *t
			d.nots = 2
			fn(&d)
		}
	}
}

func c12StoreLanguages(r *vlib.Run) {
	mk := func() (*storeapi.Store, pb.StoreApiClient, string) {
		dir := vfrac.MkTmp("c12s")
		st, err := storeapi.NewStore(context.Background(), storeapi.StoreConfig{
			FracManager: fracmanager.Config{DataDir: dir, FracSize: 100 * consts.MB, TotalSize: 1000 * consts.MB, CacheSize: 10 * consts.MB, MaintenanceDelay: time.Hour},
			API:         storeapi.APIConfig{StoreMode: storeapi.StoreModeCold, Search: storeapi.SearchConfig{WorkersCount: 2, FractionsPerIteration: 2}},
		}, c12MP{})
		if err != nil {
			panic(err)
		}
		cl := storeapi.NewClient(st)
		var docs []refdb.Doc
		for i, v := range []string{"a", "'a'", "a#b", "a\tb", `a\tb`, "A"} {
			docs = append(docs, refdb.Doc{ID: refdb.ID{MID: uint64(vfrac.BaseMID + i), RID: uint64(i + 1)}, Body: fmt.Sprintf(`{"i":%d}`, i), Toks: []refdb.Tok{{F: "k", V: v}}})
		}
		d, m := vfrac.BuildBulk(docs, 1)
		if _, err := cl.Bulk(context.Background(), &pb.BulkRequest{Count: int64(len(docs)), Docs: d, Metas: m}); err != nil {
			panic(err)
		}
		st.WaitIdle()
		return st, cl, dir
	}
	texts := []string{`k:'a'`, `k:a#b`, `k:"a\tb"`, `k:a`, `k:A`, `k:a OR k:A`}
	ask := func(cl pb.StoreApiClient, q, lang string) string {
		ctx := context.Background()
		if lang != "default" { // "default": no header, the store's configured default language decides
			ctx = metadata.NewIncomingContext(ctx, metadata.Pairs("use-seq-ql", map[string]string{"seqql": "true", "legacy": "false"}[lang]))
		}
		resp, err := cl.Search(ctx, &pb.SearchRequest{Query: q, From: 0, To: int64(vfrac.MaxMID), Size: 100, WithTotal: true})
		if err != nil {
			return "error"
		}
		if resp.Code != 0 {
			return "code " + resp.Code.String()
		}
		var b strings.Builder
		for _, x := range resp.IdSources {
			fmt.Fprintf(&b, "%d ", x.Id.Rid)
		}
		return fmt.Sprintf("ids=[%s] total=%d", b.String(), resp.Total)
	}
	stL, clL, dL := mk()
	stS, clS, dS := mk()
	stM, clM, dM := mk()
	defer func() {
		for _, st := range []*storeapi.Store{stL, stS, stM} {
			st.Stop()
		}
		for _, d := range []string{dL, dS, dM} {
			os.RemoveAll(d)
		}
	}()
	for _, q := range texts {
		wantL, wantS := ask(clL, q, "legacy"), ask(clS, q, "seqql")
		for round, lang := range []string{"legacy", "seqql", "legacy", "seqql"} {
			r.Add("evaluations", 1)
			r.Add("meaning_cases", 1)
			want := map[string]string{"legacy": wantL, "seqql": wantS}[lang]
			if got := ask(clM, q, lang); got != want {
				r.Violation(fmt.Sprintf("store query entry: %q as %s answers differently after the same text was sent in the other language", q, lang), c12Case{Kind: "store-language", Input: q, Parser: lang},
					fmt.Sprintf("round %d: got %s, a store that only ever saw %s answers %s", round, got, lang, want))
			}
		}
		// the language named by the request wins over the store's configured default; without a header the default decides
		oldDef := conf.UseSeqQLByDefault
		for _, def := range []bool{false, true} {
			conf.UseSeqQLByDefault = def
			for _, lang := range []string{"legacy", "seqql", "default"} {
				r.Add("evaluations", 1)
				r.Add("meaning_cases", 1)
				want := map[string]string{"legacy": wantL, "seqql": wantS, "default": map[bool]string{false: wantL, true: wantS}[def]}[lang]
				if got := ask(clM, q, lang); got != want {
					r.Violation(fmt.Sprintf("store query entry: %q with header=%s under use-seq-ql-by-default=%v is read in the wrong language", q, lang, def), c12Case{Kind: "store-language", Input: q, Parser: lang},
						fmt.Sprintf("got %s, want %s (legacy reading %s, SeqQL reading %s)", got, want, wantL, wantS))
				}
			}
		}
		conf.UseSeqQLByDefault = oldDef
		if wantL != wantS {
			r.Distinct("nontrivial", "store-language|"+q)
		}
	}
}

type c12MP struct{}

// one mapping object for the life of the process, as a real mapping provider hands out
var c12StoreMapping = seq.Mapping{"k": seq.NewSingleType(seq.TokenizerTypeKeyword, "", 0)}

func (c12MP) GetMapping() seq.Mapping { return c12StoreMapping }

func TestVerifC12(t *testing.T) {
	r := vlib.NewRun("C12")
	var rc c12Case
	if r.LoadReplay(&rc) {
		if rc.Kind == "store-language" {
			c12StoreLanguages(r)
		} else if rc.Kind == "deep" {
			pool := vlib.NewPool("c12", 1)
			defer pool.Close()
			var res c12Res
			jr, _ := pool.Do(c12Job{Deep: rc.Input}, &res, 300*time.Second)
			if jr.Died || jr.Hung || len(res.Panics) > 0 {
				parts := strings.Split(rc.Input, ":")
				r.Violation(fmt.Sprintf("totality: the process dies on a deeply nested query parser=%s shape=%s cause=%s", parts[2], parts[0], c12DeathCause(jr.Stderr)), rc, tailN(jr.Stderr, 600))
			}
		} else if rc.Kind == "totality" {
			c12ParseAll(rc.Input, func(p c12Panic) {
				r.Violation(fmt.Sprintf("totality panic parser=%s msg=%s", p.Parser, c12NormMsg(p.Msg)), rc, fmt.Sprintf("input %q: %s", p.Input, p.Msg))
			})
		} else {
			t.Logf("meaning replay of %q: re-run the full check", rc.Input)
		}
		r.Finish(t, "model_checking", "replay", nil, nil)
		return
	}
	// ---- (a) totality ----
	pool := vlib.NewPool("c12", vlib.Workers())
	defer pool.Close()
	base := int64(len(c12Lexemes))
	maxLen := 4
	if r.Thorough() {
		maxLen = 5
	}
	var jobs []c12Job
	const chunk = 150000
	for n := 1; n <= maxLen; n++ {
		total := int64(1)
		for i := 0; i < n; i++ {
			total *= base
		}
		for lo := int64(0); lo < total; lo += chunk {
			jobs = append(jobs, c12Job{Len: n, Lo: lo, Hi: min(lo+chunk, total)})
		}
	}
	// one more lexeme after every "<field> :" prefix (field filters are where most of the grammar lives)
	for f := 0; f < 10; f++ {
		total := int64(1)
		for i := 0; i < maxLen; i++ {
			total *= base
		}
		for lo := int64(0); lo < total; lo += chunk {
			jobs = append(jobs, c12Job{Len: maxLen, Lo: lo, Hi: min(lo+chunk, total), Fixed: []int{f, 10}})
		}
	}
	report := func(p c12Panic) {
		r.Violation(fmt.Sprintf("totality panic parser=%s msg=%s", p.Parser, c12NormMsg(p.Msg)), c12Case{Kind: "totality", Input: p.Input, Parser: p.Parser}, fmt.Sprintf("input %q: %s", p.Input, p.Msg))
	}
	var bisect func(j c12Job)
	bisect = func(j c12Job) {
		// a batch that does not answer within the horizon contains a non-terminating (or pathologically slow) input
		if j.Hi-j.Lo == 1 {
			q := c12String(j.Fixed, j.Lo, j.Len)
			r.Violation("totality: parser does not terminate", c12Case{Kind: "totality", Input: q}, fmt.Sprintf("input %q did not return within 20 s", q))
			return
		}
		mid := (j.Lo + j.Hi) / 2
		for _, h := range []c12Job{{Len: j.Len, Lo: j.Lo, Hi: mid, Fixed: j.Fixed}, {Len: j.Len, Lo: mid, Hi: j.Hi, Fixed: j.Fixed}} {
			var res c12Res
			jr, _ := pool.Do(h, &res, 20*time.Second+time.Duration(h.Hi-h.Lo)*time.Millisecond/10)
			if jr.Hung || jr.Died {
				bisect(h)
				return
			}
		}
	}
	vlib.Parallel(len(jobs), vlib.Workers(), func(i int) {
		if r.Expired() {
			return
		}
		var res c12Res
		jr, err := pool.Do(jobs[i], &res, 300*time.Second)
		if err != nil {
			panic(err)
		}
		if jr.Hung || jr.Died {
			if jr.Died {
				r.Violation("totality: parser killed the process "+c12NormMsg(firstLine(jr.Stderr)), c12Case{Kind: "totality", Input: fmt.Sprintf("batch len=%d [%d,%d) fixed=%v", jobs[i].Len, jobs[i].Lo, jobs[i].Hi, jobs[i].Fixed)}, jr.Stderr)
				return
			}
			bisect(jobs[i])
			return
		}
		r.Add("evaluations", res.Count*5)
		r.Add("totality_strings", res.Count)
		r.Add("accepted_parses", res.OKs)
		for _, p := range res.Panics {
			report(p)
		}
	})
	r.Sample(c12Case{Kind: "totality", Input: c12String(nil, 123456, 4)})
	// byte-level mutation closure of seed queries (deletion / duplication / substitution by every lexeme)
	seeds := []string{`k:a and (t:"b c" or not p:"/x/y")`, `m:in(a, 'b c', "d*")`, `k:[1, 10) or k:(a, *]`, `* | fields k, t`, `k:a | fields except "x y", z`, "# c\nk:`r*w`", `_exists_:k and not e:x`, `k:"a\"b\\c" AND t:{1 TO 5]`}
	for _, s := range seeds {
		rs := []rune(s)
		for i := 0; i <= len(rs); i++ {
			var muts []string
			if i < len(rs) {
				muts = append(muts, string(rs[:i])+string(rs[i+1:]), string(rs[:i])+string(rs[i])+string(rs[i:]))
			}
			for _, lx := range c12Lexemes {
				muts = append(muts, string(rs[:i])+lx+string(rs[i:]))
				if i < len(rs) {
					muts = append(muts, string(rs[:i])+lx+string(rs[i+1:]))
				}
			}
			for _, m := range muts {
				r.Add("evaluations", 5)
				r.Add("mutation_strings", 1)
				c12ParseAll(m, report)
			}
		}
	}
	// ---- (a') deep nesting: a query of a few megabytes must be answered (query or error), not kill the process.
	// One at a time: a parser that recurses per nesting level grows its stack to the 1 GiB limit before it dies.
	for _, desc := range []string{"paren:4000000:seqql", "paren:4000000:legacy", "not:4000000:legacy"} {
		if r.Expired() {
			break
		}
		var res c12Res
		jr, err := pool.Do(c12Job{Deep: desc}, &res, 300*time.Second)
		if err != nil {
			panic(err)
		}
		r.Add("evaluations", 1)
		r.Add("deep_nesting_queries", 1)
		parts := strings.Split(desc, ":")
		c := c12Case{Kind: "deep", Input: desc, Parser: parts[2]}
		switch {
		case jr.Died:
			r.Violation(fmt.Sprintf("totality: the process dies on a deeply nested query parser=%s shape=%s cause=%s", parts[2], parts[0], c12DeathCause(jr.Stderr)), c, fmt.Sprintf("query: %s levels of %q around k:a (%s MB)\n%s", parts[1], parts[0], "4-16", tailN(jr.Stderr, 600)))
		case jr.Hung:
			r.Violation(fmt.Sprintf("totality: parser does not terminate on a deeply nested query parser=%s shape=%s", parts[2], parts[0]), c, "no answer within 300 s")
		case len(res.Panics) > 0:
			r.Violation(fmt.Sprintf("totality panic on a deeply nested query parser=%s shape=%s msg=%s", parts[2], parts[0], c12NormMsg(res.Panics[0].Msg)), c, res.Panics[0].Msg)
		}
	}
	// ---- (a'') the parse of a query does not depend on the queries parsed before it (pooled scratch buffers):
	// after each "heavy" query (a 5000-byte token in every token position) a set of ordinary queries must
	// parse to the same AST as in a fresh state.
	{
		m := seq.Mapping{"k": seq.NewSingleType(seq.TokenizerTypeKeyword, "", 0), "k8s-pod": seq.NewSingleType(seq.TokenizerTypeKeyword, "", 0),
			"p": seq.NewSingleType(seq.TokenizerTypePath, "", 0), "t": seq.NewSingleType(seq.TokenizerTypeText, "", 0)}
		ordinary := []string{`k:foo`, `not k:foo`, `k8s-pod:a-b`, `k:in(a, b)`, `k:[a to b]`, `p:"/x/y"`, `t:"hello world"`, `k:"a*b"`, `k:a and (k8s-pod:b or not t:c)`, `k:'q' | fields k`}
		render := func(q string) string {
			qq, err := parser.ParseSeqQL(q, m)
			if err != nil {
				return "error: " + err.Error()
			}
			return qq.Root.String()
		}
		base := map[string]string{}
		for _, q := range ordinary {
			base[q] = render(q)
		}
		long := strings.Repeat("x", 5000)
		heavy := []string{"k:" + long, `k:"` + long + `"`, "k:in(a, " + long + ")", "k:[" + long + " to z]", "p:/" + long, "t:" + long, long + ":a", "k8s-pod:" + long + "-" + long, "k:'" + long + "*'"}
		for round := 0; round < 8; round++ {
			for _, h := range heavy {
				vlib.Catch(func() { parser.ParseSeqQL(h, m) })
				for _, q := range ordinary {
					r.Add("evaluations", 1)
					r.Add("meaning_cases", 1)
					if got := render(q); got != base[q] {
						r.Violation(fmt.Sprintf("meaning seqql: %q parses differently after another query was parsed", q), c12Case{Kind: "meaning", Input: q, Parser: "seqql"}, fmt.Sprintf("after a query with a 5000-byte token (%.40s...): AST %.200q, in a fresh state %.200q", h, got, base[q]))
					}
				}
			}
		}
	}
	// ---- (a3) the store's query entry point: the language is chosen per request (header use-seq-ql). Texts that are
	// valid in both languages but mean different things are sent to one store in alternating languages; every
	// answer must equal the answer of a store that only ever saw that language.
	c12StoreLanguages(r)
	// ---- (b) meaning ----
	kwLower := func(s string) string { return s }
	kwUpper := func(s string) string { return strings.ToUpper(s) }
	for leaves := 1; leaves <= 4; leaves++ {
		c12Trees(leaves, func(n *bnode) {
			for _, full := range []bool{false, true} {
				c12JudgeMeaning(r, n.render(full, kwLower), "seqql", n.eval)
				c12JudgeMeaning(r, n.render(full, kwUpper), "legacy", n.eval)
				r.Add("meaning_cases", 2)
				// the same filter followed by pipe stages (SeqQL only): the pipes do not take part in the selection
				if leaves <= 3 {
					for _, pipe := range []string{" | fields k", "| fields except k, t"} {
						c12JudgeMeaning(r, n.render(full, kwLower)+pipe, "seqql", n.eval)
						r.Add("meaning_cases", 1)
					}
				}
			}
		})
	}
	// in(...) lists of EVERY length 1..130: the filter selects exactly the documents holding one of the listed
	// values (one document per listed value and one with an unlisted value), plain, negated and conjoined
	for n := 1; n <= 130 && !r.Expired(); n++ {
		vals := make([]string, n)
		for i := range vals {
			vals[i] = fmt.Sprintf("v%d", i)
		}
		list := strings.Join(vals, ", ")
		for shape, q := range []string{"k:in(" + list + ")", "not k:in(" + list + ")", "k:in(" + list + ") and g:x", "g:x or k:in(" + list + ")"} {
			r.Add("evaluations", 1)
			r.Add("meaning_cases", 1)
			c := c12Case{Kind: "meaning", Input: q, Parser: "seqql"}
			var qq parser.SeqQLQuery
			var err error
			if p := vlib.Catch(func() { qq, err = parser.ParseSeqQL(q, nil) }); p != nil || err != nil {
				r.Violation(fmt.Sprintf("meaning seqql: in-list of %d values rejected (shape %d)", n, shape), c, fmt.Sprintf("%v %v", p, err))
				continue
			}
			for d := 0; d <= n; d++ { // document d holds k:v<d> (d == n: an unlisted value); g:x on even documents
				doc := map[string]bool{fmt.Sprintf("k:v%d", d): true, "g:x": d%2 == 0}
				listed := d < n
				want := [4]bool{listed, !listed, listed && doc["g:x"], doc["g:x"] || listed}[shape]
				got, err := evalASTDoc(qq.Root, doc)
				if err != nil || got != want {
					r.Violation(fmt.Sprintf("meaning seqql: in-list of %d values is not the disjunction of its values (shape %d)", n, shape), c, fmt.Sprintf("document with k:v%d: AST evaluates to %v, the written expression to %v (err %v)", d, got, want, err))
					break
				}
			}
		}
	}
	// in(...) is a disjunction; several words on a text field are a conjunction
	c12JudgeMeaning(r, `k:in(a, b, c)`, "seqql", func(a [3]bool) bool { return a[0] || a[1] || a[2] })
	c12JudgeMeaning(r, `not k:in(a, b) and k:c`, "seqql", func(a [3]bool) bool { return !(a[0] || a[1]) && a[2] })
	{
		m := seq.Mapping{"k": seq.NewSingleType(seq.TokenizerTypeText, "", 0)}
		for _, q := range []string{`k:"a b c"`, `k:"a-b,c"`} {
			r.Add("evaluations", 1)
			for _, lang := range []string{"seqql", "legacy"} {
				var root *parser.ASTNode
				var err error
				if lang == "seqql" {
					var qq parser.SeqQLQuery
					qq, err = parser.ParseSeqQL(q, m)
					root = qq.Root
				} else {
					root, err = parser.ParseQuery(q, m)
				}
				if err != nil {
					r.Violation("meaning "+lang+": text words rejected "+q, c12Case{Kind: "meaning", Input: q, Parser: lang}, err.Error())
					continue
				}
				for mm := 0; mm < 8; mm++ {
					a := [3]bool{mm&1 != 0, mm&2 != 0, mm&4 != 0}
					got, err := evalAST(root, a)
					if err != nil || got != (a[0] && a[1] && a[2]) {
						r.Violation("meaning "+lang+": words on a text field are not a conjunction: "+q, c12Case{Kind: "meaning", Input: q, Parser: lang}, fmt.Sprintf("AST %s err=%v", root.String(), err))
						break
					}
				}
			}
		}
	}
	r.Sample(c12Case{Kind: "meaning", Input: "not (k:a or not k:b) and k:c", Parser: "seqql"})
	ev := r.Get("evaluations")
	r.Finish(t, "model_checking",
		fmt.Sprintf("totality: every string of <=%d lexemes over a %d-lexeme alphabet (field names of every mapping type incl. object/tags/nested/exists/multi-type/unmapped, all punctuation of both grammars, keywords, quotes of three kinds, backslash, comment, invalid UTF-8, the private-use wildcard rune) plus every string '<field>:' + %d lexemes, through ParseSeqQL and ParseQuery (full and nil mapping) and ParseAggregationFilter, each under recover, in worker subprocesses (hang => bisection); three deeply nested queries (4 M levels of parentheses in both parsers, 4 M NOTs in the legacy parser; the process must survive); single-edit mutation closure (delete / duplicate / insert / substitute by every lexeme at every position) of 8 seed queries. meaning: every boolean tree with <=4 leaves over 3 atoms with NOT at every node (double NOT at the root), minimal and full parentheses, both languages, all 8 assignments, the SeqQL rendering of the trees with <=3 leaves also followed by a fields pipe (allow and except form); 6 texts that are valid in both languages sent to one store in alternating languages (each answer equals that of a store that only saw that language); 10 ordinary queries re-parsed after each of 9 queries carrying a 5000-byte token (the AST must not depend on earlier requests); in(...) lists of every length 1..130 in 4 query shapes, judged on one document per listed value plus an unlisted one; text-word conjunction. distinct_nontrivial = distinct well-formed queries whose meaning was compared", maxLen, len(c12Lexemes), maxLen),
		map[string]any{
			"states":                        r.Get("totality_strings") + r.Get("mutation_strings") + r.Get("meaning_cases"),
			"transitions":                   ev,
			"traces_validated_against_impl": ev,
			"accepted_parses":               r.Get("accepted_parses"),
		},
		[]string{"totality is exhaustive over lexeme strings of bounded length, not over all byte strings", "documented reading: not binds tighter than and, and tighter than or, operators left-associative"})
}

func firstLine(s string) string {
	for _, l := range strings.Split(s, "\n") {
		if strings.HasPrefix(l, "panic:") || strings.HasPrefix(l, "fatal error:") {
			return l
		}
	}
	return "unknown"
}
