// Package vrand replaces math/rand in util/util.go (overlay `proxy`): Shuffle asks the environment
// explorer which permutation to use (alternative 0 = identity); everything else is forwarded.
package vrand

import (
	"fmt"
	"math/rand"
	"sync/atomic"

	"github.com/ozontech/seq-db/zzverif/vdec"
)

var shuffleSeq atomic.Int64

// Quiet makes Shuffle the identity without asking the explorer (used for follow-up requests that are not explored).
var Quiet atomic.Bool

// ResetSeq restarts the numbering of shuffle events (call before every execution).
func ResetSeq() { shuffleSeq.Store(0) }

func perms(n int) [][]int {
	if n <= 1 {
		return [][]int{make([]int, n)}
	}
	var res [][]int
	var rec func(cur []int, used int)
	rec = func(cur []int, used int) {
		if len(cur) == n {
			res = append(res, append([]int{}, cur...))
			return
		}
		for i := 0; i < n; i++ {
			if used&(1<<i) == 0 {
				rec(append(cur, i), used|1<<i)
			}
		}
	}
	rec(nil, 0)
	return res
}

// Shuffle applies the permutation chosen by the explorer to the n elements behind swap.
func Shuffle(n int, swap func(i, j int)) {
	if !vdec.Active() {
		rand.Shuffle(n, swap)
		return
	}
	if Quiet.Load() {
		return
	}
	k := shuffleSeq.Add(1)
	ps := perms(n)
	p := ps[vdec.Ask(fmt.Sprintf("shuffle/#%02d/n%d", k, n), len(ps))]
	// realise permutation p by swaps: position i must receive original element p[i]
	pos := make([]int, n) // pos[e] = current position of original element e
	at := make([]int, n)  // at[i] = original element currently at position i
	for i := range pos {
		pos[i], at[i] = i, i
	}
	for i := 0; i < n; i++ {
		j := pos[p[i]]
		if i != j {
			swap(i, j)
			ei, ej := at[i], at[j]
			at[i], at[j] = ej, ei
			pos[ei], pos[ej] = j, i
		}
	}
}

func Intn(n int) int                 { return rand.Intn(n) }
func Int63() int64                   { return rand.Int63() }
func Int() int                       { return rand.Int() }
func Float64() float64               { return rand.Float64() }
func Uint64() uint64                 { return rand.Uint64() }
func Uint32() uint32                 { return rand.Uint32() }
func Perm(n int) []int               { return rand.Perm(n) }
func New(src rand.Source) *rand.Rand { return rand.New(src) }
func NewSource(seed int64) rand.Source { return rand.NewSource(seed) }
