// Package vdec is the E4 engine: depth-first search over environment answers with a deviation bound.
// The code under test asks for the outcome of an environment event through Ask(id, n); id identifies
// the event independently of goroutine arrival order (tier/shard/replica/n-th call …), alternative 0
// is the default (no fault). An execution is determined by the assignment id -> alternative.
package vdec

import (
	"sort"
	"sync"
)

type Exec struct {
	mu     sync.Mutex
	assign map[string]int
	asked  map[string]int // id -> domain size
	order  []string
	closed bool
}

var (
	cur   *Exec
	curMu sync.RWMutex
)

// Ask returns the alternative chosen for event id (0 = default) out of n.
func Ask(id string, n int) int {
	curMu.RLock()
	e := cur
	curMu.RUnlock()
	if e == nil {
		return 0
	}
	e.mu.Lock()
	defer e.mu.Unlock()
	if e.closed {
		return 0 // a goroutine abandoned by the code under test answers after the execution ended
	}
	if _, ok := e.asked[id]; !ok {
		e.asked[id] = n
		e.order = append(e.order, id)
	}
	a := e.assign[id]
	if a >= n {
		a = 0
	}
	return a
}

// Active reports whether an exploration is running.
func Active() bool {
	curMu.RLock()
	defer curMu.RUnlock()
	return cur != nil
}

type Stats struct {
	Execs    int
	MaxAsked int
	Bound    int
	Capped   bool
}

// Run executes body once under the given assignment and returns the events that were asked.
func Run(assign map[string]int, body func()) map[string]int {
	e := &Exec{assign: assign, asked: map[string]int{}}
	curMu.Lock()
	cur = e
	curMu.Unlock()
	body()
	curMu.Lock()
	cur = nil
	curMu.Unlock()
	e.mu.Lock()
	e.closed = true
	res := make(map[string]int, len(e.asked))
	for k, v := range e.asked {
		res[k] = v
	}
	e.mu.Unlock()
	return res
}

// Explore enumerates every assignment with at most `bound` non-default answers (bound < 0: unbounded).
// check is called after every execution with the assignment that produced it; returning false stops.
func Explore(bound, maxExecs int, body func(), check func(assign map[string]int) bool) Stats {
	st := Stats{Bound: bound}
	stop := false
	var rec func(assign map[string]int, devs int)
	rec = func(assign map[string]int, devs int) {
		if stop {
			return
		}
		if maxExecs > 0 && st.Execs >= maxExecs {
			st.Capped, stop = true, true
			return
		}
		asked := Run(assign, body)
		st.Execs++
		if len(asked) > st.MaxAsked {
			st.MaxAsked = len(asked)
		}
		if !check(assign) {
			stop = true
			return
		}
		var und []string
		for id := range asked {
			if _, ok := assign[id]; !ok {
				und = append(und, id)
			}
		}
		sort.Strings(und)
		if bound >= 0 && devs+1 > bound {
			return
		}
		for i, u := range und {
			for alt := 1; alt < asked[u]; alt++ {
				next := make(map[string]int, len(assign)+i+1)
				for k, v := range assign {
					next[k] = v
				}
				for _, w := range und[:i] {
					next[w] = 0
				}
				next[u] = alt
				rec(next, devs+1)
				if stop {
					return
				}
			}
		}
	}
	rec(map[string]int{}, 0)
	return st
}
