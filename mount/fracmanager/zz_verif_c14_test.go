//go:build verif_small

package fracmanager

// C14 — time-range pruning never hides a document that lies in the requested range.
// (a) util.Bitmask.HasBitsIn exhaustively; (b) seq.MIDsDistribution exhaustively over small maps, also
// after a JSON round trip; (c) frac.Info.IsIntersecting; (d) real fractions (small block constants)
// whose documents lie > 24 h / > 10 min before creation and after it, active, sealed and reloaded
// through .frac-cache: Searcher.SearchDocs with pruning = reference search over all documents.

import (
	"context"
	"encoding/json"
	"fmt"
	"math"
	"os"
	"sort"
	"testing"
	"time"

	"github.com/ozontech/seq-db/conf"
	"github.com/ozontech/seq-db/consts"
	"github.com/ozontech/seq-db/frac"
	"github.com/ozontech/seq-db/seq"
	"github.com/ozontech/seq-db/util"
	"github.com/ozontech/seq-db/zzverif/refdb"
	"github.com/ozontech/seq-db/zzverif/vfrac"
	"github.com/ozontech/seq-db/zzverif/vlib"
)

type c14Case struct {
	Kind   string   `json:"kind"`
	Size   int      `json:"size,omitempty"`
	Bits   []int    `json:"bits,omitempty"`
	L      int      `json:"l,omitempty"`
	R      int      `json:"r,omitempty"`
	DFrom  int64    `json:"dfrom,omitempty"` // ms
	DTo    int64    `json:"dto,omitempty"`
	Bucket int64    `json:"bucket,omitempty"`
	MIDs   []uint64 `json:"mids,omitempty"`
	QF     uint64   `json:"qf,omitempty"`
	QT     uint64   `json:"qt,omitempty"`
	JSON   bool     `json:"json,omitempty"`
	Ages   []int64  `json:"ages,omitempty"` // real fractions: document ages in ms before "now" (negative = future)
	Layout []int    `json:"layout,omitempty"`
	// Redeliver: every fraction is ingested as two bulks, the second re-sending the first document followed by
	// the newest and then the remaining ones (the newest new document is not the last one of its bulk)
	Redeliver bool   `json:"redeliver,omitempty"`
	Form      string `json:"form,omitempty"`
	Query     string `json:"query,omitempty"`
	Asc       bool   `json:"asc,omitempty"`
}

func c14Bitmask(r *vlib.Run, c c14Case) {
	r.Add("evaluations", 1)
	b := util.NewBitmask(c.Size)
	for _, i := range c.Bits {
		b.Set(i, true)
	}
	want := false
	for _, i := range c.Bits {
		if i >= c.L && i <= c.R {
			want = true
		}
	}
	got := b.HasBitsIn(c.L, c.R)
	if got != want {
		r.Violation(fmt.Sprintf("bitmask size=%d bits=%v l=%d r=%d", c.Size, c.Bits, c.L, c.R), c, fmt.Sprintf("got %v want %v", got, want))
	}
	if want {
		r.Distinct("nontrivial", vlib.JSON(c))
	}
}

func c14Dist(r *vlib.Run, c c14Case) {
	r.Add("evaluations", 1)
	d := seq.NewMIDsDistribution(time.UnixMilli(c.DFrom), time.UnixMilli(c.DTo), time.Duration(c.Bucket)*time.Millisecond)
	for _, m := range c.MIDs {
		d.Add(seq.MID(m))
	}
	if c.JSON {
		b, err := json.Marshal(d)
		if err != nil {
			r.Violation("dist marshal error", c, err.Error())
			return
		}
		d2 := &seq.MIDsDistribution{}
		if err := json.Unmarshal(b, d2); err != nil {
			r.Violation("dist unmarshal error", c, err.Error())
			return
		}
		d = d2
	}
	inRange := false
	for _, m := range c.MIDs {
		if m >= c.QF && m <= c.QT {
			inRange = true
		}
	}
	got := d.IsIntersecting(seq.MID(c.QF), seq.MID(c.QT))
	if inRange && !got {
		r.Violation(fmt.Sprintf("dist from=%d to=%d bucket=%d mids=%v q=[%d,%d] json=%v", c.DFrom, c.DTo, c.Bucket, c.MIDs, c.QF, c.QT, c.JSON), c, "a document in range is hidden by the occupancy map")
	}
	if inRange {
		r.Distinct("nontrivial", vlib.JSON(c))
	}
	if got {
		r.Add("dist_true", 1)
	} else {
		r.Add("dist_false", 1)
	}
}

func c14Info(r *vlib.Run, c c14Case) {
	r.Add("evaluations", 1)
	info := &frac.Info{DocsTotal: uint32(len(c.MIDs)), From: seq.MID(c.DFrom), To: seq.MID(c.DTo)}
	inRange := false
	for _, m := range c.MIDs {
		if m >= c.QF && m <= c.QT {
			inRange = true
		}
	}
	if inRange && !info.IsIntersecting(seq.MID(c.QF), seq.MID(c.QT)) {
		r.Violation(fmt.Sprintf("info from=%d to=%d mids=%v q=[%d,%d]", c.DFrom, c.DTo, c.MIDs, c.QF, c.QT), c, "fraction with a document in range is skipped")
	}
}

// ---- real fractions ----

var c14AgeSlots = []int64{
	int64(25 * time.Hour / time.Millisecond), int64(24*time.Hour/time.Millisecond) + 30_000,
	int64(11 * time.Minute / time.Millisecond), int64(10*time.Minute/time.Millisecond) - 1, int64(5 * time.Minute / time.Millisecond),
	61_000, 0, -60_000,
}

func c14Docs(now int64, ages []int64) []refdb.Doc {
	var docs []refdb.Doc
	for i, a := range ages {
		k := "a"
		if i%2 == 1 {
			k = "b"
		}
		docs = append(docs, refdb.Doc{ID: refdb.ID{MID: uint64(now - a), RID: uint64(i + 1)}, Body: fmt.Sprintf(`{"i":%d}`, i),
			Toks: []refdb.Tok{{F: "k", V: k}, {F: "_exists_", V: "k"}}})
	}
	return docs
}

func newC14FM(dir string) *FracManager {
	cfg := &Config{DataDir: dir, FracSize: 100 * consts.MB, TotalSize: 1000 * consts.MB, CacheSize: 10 * consts.MB}
	fm := NewFracManager(cfg)
	if err := fm.Load(context.Background()); err != nil {
		panic(err)
	}
	return fm
}

func c14Grid(docs []refdb.Doc, infos []*frac.Info) []uint64 {
	// "no upper bound" is written as the largest value of the wire type: MaxInt64, and - for the unsigned MID of the
	// store API (a negative `to` on the wire) - 1<<63 and MaxUint64
	set := map[uint64]bool{0: true, vfrac.MaxMID: true, math.MaxInt64: true, 1 << 63: true, math.MaxUint64: true}
	add := func(m uint64) {
		set[m] = true
		set[m+1] = true
		if m > 0 {
			set[m-1] = true
		}
	}
	for _, d := range docs {
		add(d.ID.MID)
	}
	for _, in := range infos {
		// bucket borders of the occupancy map next to every document
		ct := in.CreationTime
		add(ct)
		dfrom := uint64(in.From)
		if ct-dfrom > uint64(frac.DistributionMaxInterval/time.Millisecond) {
			dfrom = ct - uint64(frac.DistributionMaxInterval/time.Millisecond)
		}
		add(dfrom)
		for _, d := range docs {
			if d.ID.MID >= dfrom {
				b := dfrom + (d.ID.MID-dfrom)/60_000*60_000
				add(b)
				add(b + 60_000)
			}
		}
	}
	var g []uint64
	for m := range set {
		g = append(g, m)
	}
	sort.Slice(g, func(i, j int) bool { return g[i] < g[j] })
	return g
}

// c14Real builds one store layout and checks every grid interval in three forms.
func c14Real(r *vlib.Run, ages []int64, layout []int, redeliver bool, only *c14Case) {
	dir := vfrac.MkTmp("c14")
	defer os.RemoveAll(dir)
	now := time.Now().UnixMilli()
	if only != nil && len(only.MIDs) == 1 {
		now = int64(only.MIDs[0])
	}
	docs := c14Docs(now, ages)
	fm := newC14FM(dir)
	// layout[i] = fraction index of doc i; fractions are filled in order, sealing between them
	nfr := 0
	for _, l := range layout {
		if l+1 > nfr {
			nfr = l + 1
		}
	}
	searcher := NewSearcher(2, SearcherCfg{FractionsPerIteration: 1})
	pqAll, _ := vfrac.Parse(refdb.All{})
	pqA, _ := vfrac.Parse(refdb.Lit{Field: "k", Pattern: "a"})
	check := func(form string, fracs List) {
		var infos []*frac.Info
		for _, f := range fracs {
			infos = append(infos, f.Info())
		}
		grid := c14Grid(docs, infos)
		for _, pq := range []vfrac.ParsedQuery{pqAll, pqA} {
			for i, qf := range grid {
				for _, qt := range grid[i:] {
					asc := (qf+qt)%2 == 1
					c := c14Case{Kind: "real", Ages: ages, Layout: layout, Redeliver: redeliver, Form: form, Query: pq.Text, QF: qf, QT: qt, Asc: asc, MIDs: []uint64{uint64(now)}}
					if only != nil && (only.QF != qf || only.QT != qt || only.Query != pq.Text || only.Form != form) {
						continue
					}
					r.Add("evaluations", 1)
					qpr, err := searcher.SearchDocs(context.Background(), fracs, vfrac.Params(pq, qf, qt, asc, 100, true))
					wantIDs, wantTotal := refdb.Search(docs, pq.Ref, qf, qt, asc, 100)
					// signature is expressed relative to `now` so that it is stable across runs
					sig := fmt.Sprintf("real ages=%v layout=%v redeliver=%v form=%s q=%s qf=now%+d qt=now%+d", ages, layout, redeliver, form, pq.Text, int64(qf)-now, int64(qt)-now)
					if err != nil {
						r.Violation(sig+" error", c, err.Error())
						continue
					}
					got := vfrac.RefIDs(qpr.IDs.IDs())
					if fmt.Sprint(got) != fmt.Sprint(wantIDs) && !(len(got) == 0 && len(wantIDs) == 0) || int(qpr.Total) != wantTotal {
						r.Violation(sig, c, fmt.Sprintf("got %v total=%d want %v total=%d", got, qpr.Total, wantIDs, wantTotal))
					}
					if wantTotal > 0 && wantTotal < len(docs) {
						r.Add("real_nontrivial", 1)
					}
				}
			}
		}
	}
	for fi := 0; fi < nfr; fi++ {
		var part []refdb.Doc
		for i, l := range layout {
			if l == fi {
				part = append(part, docs[i])
			}
		}
		bulks := [][]refdb.Doc{part}
		if redeliver && len(part) >= 3 {
			second := []refdb.Doc{part[0], part[len(part)-1]}
			second = append(second, part[1:len(part)-1]...)
			bulks = [][]refdb.Doc{{part[0]}, second}
		}
		for _, b := range bulks {
			d, m := vfrac.BuildBulk(b, 1)
			if err := fm.Append(context.Background(), d, m); err != nil {
				panic(err)
			}
			fm.WaitIdle()
		}
		if fi < nfr-1 {
			fm.SealForcedForTests()
		}
	}
	check("last-active", fm.GetAllFracs())
	fm.SealForcedForTests()
	check("sealed", fm.GetAllFracs())
	if err := fm.fracCache.SyncWithDisk(); err != nil {
		panic(err)
	}
	fm.fracProvider.Stop()
	fm2 := newC14FM(dir)
	if fm2.fracCache == nil {
		panic("no frac cache")
	}
	check("reloaded-frac-cache", fm2.GetAllFracs())
	fm2.fracProvider.Stop()
	for _, f := range fm2.GetAllFracs() {
		f.Suicide()
	}
	for _, f := range fm.GetAllFracs() {
		f.Suicide()
	}
	r.Add("real_layouts", 1)
}

func TestVerifC14(t *testing.T) {
	conf.SkipFsync = true
	conf.IndexWorkers = 1
	r := vlib.NewRun("C14")
	var rc c14Case
	if r.LoadReplay(&rc) {
		switch rc.Kind {
		case "bitmask":
			c14Bitmask(r, rc)
		case "dist":
			c14Dist(r, rc)
		case "info":
			c14Info(r, rc)
		case "real":
			c14Real(r, rc.Ages, rc.Layout, rc.Redeliver, &rc)
		}
		r.Finish(t, "model_checking", "replay", nil, nil)
		return
	}
	// (a) bitmask
	maxSize, fullMask := 18, 10
	if r.Thorough() {
		maxSize, fullMask = 26, 12
	}
	for size := 1; size <= maxSize; size++ {
		var masks [][]int
		if size <= fullMask {
			for m := 0; m < 1<<size; m++ {
				var bits []int
				for i := 0; i < size; i++ {
					if m&(1<<i) != 0 {
						bits = append(bits, i)
					}
				}
				masks = append(masks, bits)
			}
		} else {
			masks = append(masks, nil)
			for i := 0; i < size; i++ {
				masks = append(masks, []int{i})
				for j := i + 1; j < size; j++ {
					masks = append(masks, []int{i, j})
				}
			}
		}
		for _, bits := range masks {
			for l := 0; l < size; l++ {
				for rr := l; rr < size; rr++ {
					c14Bitmask(r, c14Case{Kind: "bitmask", Size: size, Bits: bits, L: l, R: rr})
				}
			}
		}
	}
	r.Sample(c14Case{Kind: "bitmask", Size: 11, Bits: []int{3, 9}, L: 4, R: 9})
	// (b) distribution
	const b = 1000 // bucket ms
	nb := 4
	if r.Thorough() {
		nb = 6
	}
	type dcase struct{ from, to int64 }
	var dists []dcase
	for from := int64(0); from <= 3*b; from += b {
		for k := 0; k <= nb; k++ {
			for _, off := range []int64{0, b / 2} {
				dists = append(dists, dcase{from + 10*b, from + 10*b + int64(k)*b + off})
			}
		}
	}
	vlib.Parallel(len(dists), 0, func(di int) {
		d := dists[di]
		var grid []uint64
		for m := d.from - 2*b; m <= d.to+2*b; m += b / 2 {
			grid = append(grid, uint64(m))
		}
		grid = append(grid, 0, uint64(d.to)+1, uint64(d.from)-1)
		far := []uint64{math.MaxInt64, 1 << 63, math.MaxUint64} // range ends only ("no upper bound")
		var subsets [][]uint64
		for i := range grid {
			subsets = append(subsets, []uint64{grid[i]})
			for j := i + 1; j < len(grid); j++ {
				subsets = append(subsets, []uint64{grid[i], grid[j]})
				if r.Thorough() || (i+j)%3 == 0 {
					for k := j + 1; k < len(grid); k++ {
						subsets = append(subsets, []uint64{grid[i], grid[j], grid[k]})
					}
				}
			}
		}
		sg := append(append([]uint64{}, grid...), far...)
		sort.Slice(sg, func(i, j int) bool { return sg[i] < sg[j] })
		for _, mids := range subsets {
			for i, qf := range sg {
				for _, qt := range sg[i:] {
					for _, js := range []bool{false, true} {
						c14Dist(r, c14Case{Kind: "dist", DFrom: d.from, DTo: d.to, Bucket: b, MIDs: mids, QF: qf, QT: qt, JSON: js})
					}
				}
			}
		}
	})
	r.Sample(c14Case{Kind: "dist", DFrom: 10000, DTo: 12500, Bucket: b, MIDs: []uint64{9500, 12000}, QF: 11500, QT: 12400, JSON: true})
	// (c) Info borders
	for from := uint64(5); from <= 7; from++ {
		for to := from; to <= from+3; to++ {
			for q1 := uint64(3); q1 <= 12; q1++ {
				for q2 := q1; q2 <= 12; q2++ {
					c14Info(r, c14Case{Kind: "info", DFrom: int64(from), DTo: int64(to), MIDs: []uint64{from, to}, QF: q1, QT: q2})
				}
			}
		}
	}
	// (d) real fractions: every non-empty subset of the age slots of size <= 3 or >= 7 (thorough: all subsets),
	// as one fraction and as two fractions split at every position
	var layouts []struct {
		ages   []int64
		layout []int
	}
	ns := len(c14AgeSlots)
	for m := 1; m < 1<<ns; m++ {
		var ages []int64
		for i := 0; i < ns; i++ {
			if m&(1<<i) != 0 {
				ages = append(ages, c14AgeSlots[i])
			}
		}
		if !r.Thorough() && len(ages) > 3 && len(ages) < ns-1 {
			continue // quick: small subsets, plus the 7- and 8-document ones that span several ID blocks
		}
		one := make([]int, len(ages))
		layouts = append(layouts, struct {
			ages   []int64
			layout []int
		}{ages, one})
		for cut := 1; cut < len(ages); cut++ {
			l := make([]int, len(ages))
			for i := cut; i < len(ages); i++ {
				l[i] = 1
			}
			if r.Thorough() || (m+cut)%2 == 0 {
				layouts = append(layouts, struct {
					ages   []int64
					layout []int
				}{ages, l})
			}
		}
	}
	// sparse-minute shapes: the occupancy buckets are counted from the oldest document's timestamp, which
	// is not aligned to the wall-clock minute (offset d); two documents of one wall-clock minute then
	// lie in different buckets, with empty minutes around them
	now0 := time.Now().UnixMilli()
	minute := now0 / 60_000 * 60_000
	for _, d := range []int64{15_000, 30_000, 45_000} {
		ts := []int64{minute - 12*60_000 + d, minute - 8*60_000 + d - 10_000, minute - 8*60_000 + d + 10_000, minute - 4*60_000 + d + 10_000, minute - 4*60_000 + d + 20_000, minute - 2*60_000 + d - 10_000}
		ages := make([]int64, len(ts))
		for i, t := range ts {
			ages[i] = now0 - t
		}
		for _, cut := range []int{len(ts), 1, 3} {
			l := make([]int, len(ts))
			for i := cut; i < len(ts); i++ {
				l[i] = 1
			}
			layouts = append(layouts, struct {
				ages   []int64
				layout []int
			}{ages, l})
		}
	}
	// late documents in EVERY fraction (each fraction then has its own occupancy map; the maps of neighbouring
	// fractions are persisted side by side in .frac-cache), two and three fractions with interleaved times
	for _, lt := range []struct {
		ages   []int64
		layout []int
	}{
		{[]int64{30 * 60_000, 20 * 60_000, 25 * 60_000, 12 * 60_000}, []int{0, 0, 1, 1}},
		{[]int64{40 * 60_000, 30 * 60_000, 35 * 60_000, 25 * 60_000, 20 * 60_000, 12 * 60_000}, []int{0, 0, 1, 1, 2, 2}},
		{[]int64{3 * 3600_000, 90 * 60_000, 2 * 3600_000, 11 * 60_000}, []int{0, 0, 1, 1}},
	} {
		layouts = append(layouts, struct {
			ages   []int64
			layout []int
		}{lt.ages, lt.layout})
	}
	vlib.Parallel(len(layouts), 8, func(i int) {
		if r.Expired() {
			return
		}
		c14Real(r, layouts[i].ages, layouts[i].layout, false, nil)
		if len(layouts[i].ages) >= 3 && layouts[i].layout[len(layouts[i].layout)-1] == 0 && (r.Thorough() || i%3 == 0) {
			c14Real(r, layouts[i].ages, layouts[i].layout, true, nil) // one fraction, ingested with a re-delivery
		}
		r.Distinct("nontrivial", fmt.Sprint("real", layouts[i]))
	})
	r.Sample(c14Case{Kind: "real", Ages: layouts[len(layouts)/2].ages, Layout: layouts[len(layouts)/2].layout, Form: "reloaded-frac-cache", Query: "*"})
	ev := r.Get("evaluations")
	r.Finish(t, "model_checking",
		fmt.Sprintf("bitmask: all sizes<=%d, all l<=r, all masks for size<=%d and all masks with <=2 bits above; distribution: from in 4 offsets x 0..%d buckets x on/off-bucket end, added MIDs = subsets of size<=3 of a half-bucket grid over [from-2b,to+2b], all ordered query pairs, direct and after JSON round trip (soundness: a MID in range implies intersecting); Info borders; real fractions (scaled block constants: 4 IDs per block, so the 7- and 8-document fractions span 3 ID blocks): subsets (quick: sizes 1-3 and 7-8, thorough: all) of 8 age slots (25h, 24h+30s, 11min, 10min-1ms, 5min, 61s, 0, -60s) in one or two fractions (every third single-fraction layout again ingested as two bulks with a re-delivered document and the newest document not last), plus layouts of two and three fractions that ALL hold late documents (every fraction has an occupancy map; interleaved times), plus sparse-minute shapes (6 documents placed +-10 s around the bucket border offset of the oldest document, offsets 15/30/45 s, empty minutes in between), three forms (last fraction active / all sealed / reloaded via .frac-cache), queries * and k:a over all ordered pairs of a border grid (document MIDs +-1, occupancy bucket borders, creation time, 0, max) vs reference search over all documents", maxSize, fullMask, nb),
		map[string]any{
			"states":                        r.DistinctCount("nontrivial"),
			"transitions":                   ev,
			"traces_validated_against_impl": ev,
			"real_layouts":                  r.Get("real_layouts"),
		},
		[]string{"soundness only: pruning may keep a fraction it could skip", "document ages are relative to the wall clock at run time; signatures are expressed relative to it"})
}
