//go:build verif_maint

package fracmanager

// C15 (restart order part) — "size-based retention removes whole fractions, oldest first" from the on-disk states
// that a crash leaves when seals overlap: every rotation seals in its own goroutine, so at the moment of a crash
// any subset of the rotated fractions may still be unsealed (files .docs + .meta) while younger ones are sealed.
// Enumerated: n = 3, 4 fractions created in order, every subset of the n-1 rotated ones sealed at the crash (the
// youngest is the active one), the directory as it is at that moment is restarted by a fresh FracManager.Load
// (which seals the interrupted ones), then retention runs with a budget equal to the newest k fractions, k = 1..n-1.
// Oracle: every removed fraction is older (creation order = name order) than every kept one.

import (
	"context"
	"fmt"
	"io"
	"os"
	"path/filepath"
	"sort"
	"sync"
	"testing"
	"time"

	"github.com/ozontech/seq-db/conf"
	"github.com/ozontech/seq-db/consts"
	"github.com/ozontech/seq-db/zzverif/refdb"
	"github.com/ozontech/seq-db/zzverif/vfrac"
	"github.com/ozontech/seq-db/zzverif/vlib"
)

type c15oCase struct {
	N      int `json:"order_n"`
	Sealed int `json:"order_sealed"` // bit i: rotated fraction i was sealed when the process died
	Keep   int `json:"order_keep"`
}

func c15oCopyDir(src, dst string) {
	ents, err := os.ReadDir(src)
	if err != nil {
		panic(err)
	}
	for _, e := range ents {
		in, err := os.Open(filepath.Join(src, e.Name()))
		if err != nil {
			panic(err)
		}
		out, err := os.Create(filepath.Join(dst, e.Name()))
		if err != nil {
			panic(err)
		}
		if _, err := io.Copy(out, in); err != nil {
			panic(err)
		}
		in.Close()
		out.Close()
	}
}

func c15oRun(r *vlib.Run, c c15oCase) {
	r.Add("evaluations", 1)
	sig := fmt.Sprintf("restart order n=%d sealed=%0*b keep=%d", c.N, c.N-1, c.Sealed, c.Keep)
	dir, dir2 := vfrac.MkTmp("c15o"), vfrac.MkTmp("c15o2")
	defer os.RemoveAll(dir)
	defer os.RemoveAll(dir2)
	newFM := func(d string) (*FracManager, *Config) {
		cfg := &Config{DataDir: d, FracSize: 100 * consts.MB, TotalSize: 1000 * consts.MB, CacheSize: 16 * consts.MB}
		return NewFracManager(cfg), cfg
	}
	fm, _ := newFM(dir)
	if err := fm.Load(context.Background()); err != nil {
		panic(err)
	}
	var names []string
	var rotated []activeRef
	for i := 0; i < c.N; i++ {
		doc := refdb.Doc{ID: refdb.ID{MID: uint64(vfrac.BaseMID + i), RID: uint64(10 + i)}, Body: fmt.Sprintf(`{"i":%d,"pad":"%s"}`, i, vfrac.Pad(40)),
			Toks: vfrac.WithExists([]refdb.Tok{{F: "k", V: "a"}, {F: "u", V: fmt.Sprint(i)}})}
		d, m := vfrac.BuildBulk([]refdb.Doc{doc}, 1)
		if err := fm.Append(context.Background(), d, m); err != nil {
			panic(err)
		}
		fm.WaitIdle()
		names = append(names, fm.Active().Info().Name())
		if i < c.N-1 {
			time.Sleep(3 * time.Millisecond) // fraction names carry the creation time in milliseconds
			rotated = append(rotated, fm.rotate())
		}
	}
	if !sort.StringsAreSorted(names) {
		panic(fmt.Sprintf("harness: names are not in creation order: %v", names))
	}
	for i, a := range rotated {
		if c.Sealed&(1<<i) != 0 {
			fm.seal(a)
		}
	}
	c15oCopyDir(dir, dir2) // the process dies here: what is on disk is what the next start finds
	for _, f := range fm.GetAllFracs() {
		f.Suicide()
	}
	fm.fracProvider.Stop()

	fm2, cfg2 := newFM(dir2)
	if err := fm2.Load(context.Background()); err != nil {
		r.Violation(sig+": the store does not start", c, err.Error())
		return
	}
	defer func() {
		for _, f := range fm2.GetAllFracs() {
			f.Suicide()
		}
		fm2.fracProvider.Stop()
	}()
	fm2.WaitIdle()
	size := map[string]uint64{}
	var listed []string
	for _, f := range fm2.GetAllFracs() {
		size[f.Info().Name()] = f.Info().FullSize()
		listed = append(listed, f.Info().Name())
	}
	for _, n := range names {
		if _, ok := size[n]; !ok {
			r.Violation(sig+": a fraction is not loaded after the restart", c, fmt.Sprintf("created %v, loaded %v", names, listed))
			return
		}
	}
	var budget uint64
	for _, n := range names[c.N-c.Keep:] {
		budget += size[n]
	}
	cfg2.TotalSize = budget
	var wg sync.WaitGroup
	fm2.shrinkSizes(&wg)
	wg.Wait()
	kept := map[string]bool{}
	for _, f := range fm2.GetAllFracs() {
		kept[f.Info().Name()] = true
	}
	oldestKept := -1
	for i, n := range names {
		if kept[n] && oldestKept < 0 {
			oldestKept = i
		}
	}
	var removedNewer []string
	for i, n := range names {
		if !kept[n] && oldestKept >= 0 && i > oldestKept {
			removedNewer = append(removedNewer, n)
		}
	}
	if len(removedNewer) > 0 {
		r.Violation(sig+": retention removed a fraction that is newer than one it kept", c,
			fmt.Sprintf("creation order %v\nlist after the restart %v\nbudget = newest %d fractions = %d bytes\nkept %v\nremoved although newer than %s: %v", names, listed, c.Keep, budget, kept, names[oldestKept], removedNewer))
	}
	if c.Sealed != 1<<(c.N-1)-1 {
		r.Distinct("nontrivial", sig)
	}
}

func TestVerifC15Order(t *testing.T) {
	r := vlib.NewRun("C15")
	conf.SkipFsync = true
	conf.IndexWorkers = 1
	var rc c15oCase
	if r.LoadReplay(&rc) {
		if rc.N > 0 {
			c15oRun(r, rc)
		}
		r.Finish(t, "model_checking", "replay", nil, nil)
		return
	}
	for n := 3; n <= 4; n++ {
		for mask := 0; mask < 1<<(n-1); mask++ {
			for keep := 1; keep < n; keep++ {
				c15oRun(r, c15oCase{N: n, Sealed: mask, Keep: keep})
			}
		}
	}
	r.Sample(c15oCase{N: 3, Sealed: 2, Keep: 2})
	ev := r.Get("evaluations")
	r.Finish(t, "model_checking",
		"restart order part of C15: n = 3, 4 fractions created in order x every subset of the rotated ones sealed at the moment of the crash (seals overlap) x restart by the real FracManager.Load x retention with a budget of the newest k = 1..n-1 fractions: every removed fraction is older than every kept one",
		map[string]any{"states": ev, "transitions": ev, "traces_validated_against_impl": ev},
		[]string{"the crash state is the directory as it is when all acknowledged writes are on disk (no torn writes here; those are the main part of the check)"})
}
