//go:build verif_maint

package fracmanager

// C18 (maintenance part) — "a cleaning pass that runs without concurrent lookups brings the accounted size back
// under the configured limit", for the pass as the store runs it: CacheMaintainer.rotate(); cleanup() (one tick
// of RunCleanLoop) over the real cleaners and caches. Explicit enumeration of growth histories: every sequence of
// <= N operations over {load 2% / 4% / 30% / 60% of the cleaner's limit into a cache of the doc-block cleaner,
// maintenance pass}. After every pass the cleaner is asked whether it is over its limit (Cleaner.Cleanup reports
// true, and the size it saw, exactly when the accounted size exceeds the limit): it must not be.

import (
	"fmt"
	"strings"
	"testing"

	"github.com/ozontech/seq-db/cache"
	"github.com/ozontech/seq-db/zzverif/vlib"
)

type c18mCase struct {
	Maint []string `json:"maint"`
}

var c18mOps = []string{"P", "L4", "L2", "L30", "L60"}

func c18mRun(r *vlib.Run, seq []string) {
	r.Add("evaluations", 1)
	cm := NewCacheMaintainer(1<<30, 64<<20, nil)
	cleaner := cm.layers[docsName].cleaner
	limit := cleaner.SizeLimit()
	caches := []*cache.Cache[[]byte]{cm.CreateDocBlockCache(), cm.CreateDocBlockCache()}
	key := uint32(0)
	loaded := false
	for i, op := range seq {
		if op == "P" {
			cm.rotate()
			cm.cleanup()
			r.Add("passes", 1)
			stat := &cache.CleanStat{}
			if cleaner.Cleanup(stat) {
				r.Violation("maintenance pass leaves the accounted size over the limit: "+strings.Join(seq[:i+1], " "), c18mCase{seq[:i+1]},
					fmt.Sprintf("accounted size %d, limit %d after the pass at step %d", stat.TotalSize, limit, i))
				return
			}
			if loaded {
				r.Distinct("nontrivial", strings.Join(seq[:i+1], " "))
			}
			continue
		}
		var pct uint64
		fmt.Sscanf(op, "L%d", &pct)
		key++
		k := key
		caches[int(key)%2].Get(k, func() ([]byte, int) { return []byte{byte(k)}, int(limit * pct / 100) })
		loaded = true
	}
}

func TestVerifC18Maint(t *testing.T) {
	r := vlib.NewRun("C18")
	var rc c18mCase
	if r.LoadReplay(&rc) {
		if len(rc.Maint) > 0 {
			c18mRun(r, rc.Maint)
		}
		r.Finish(t, "model_checking", "replay", nil, nil)
		return
	}
	depth := 8
	if r.Thorough() {
		depth = 10
	}
	var rec func(cur []string)
	rec = func(cur []string) {
		if len(cur) == depth {
			if cur[depth-1] == "P" { // every pass inside the sequence is judged; sequences ending in a load add nothing
				c18mRun(r, cur)
			}
			return
		}
		for _, op := range c18mOps {
			rec(append(cur, op))
		}
	}
	rec(nil)
	r.Sample(c18mCase{[]string{"L60", "L30", "L4", "L4", "P", "L4", "P"}})
	ev := r.Get("evaluations")
	r.Finish(t, "model_checking",
		fmt.Sprintf("maintenance part of C18: every sequence of %d operations over {load 2%% / 4%% / 30%% / 60%% of the limit, maintenance pass = CacheMaintainer.rotate(); cleanup()} on the real doc-block cleaner with two caches; after every pass the accounted size must be within the limit", depth),
		map[string]any{"states": r.Get("passes"), "transitions": ev, "traces_validated_against_impl": ev},
		[]string{"single goroutine: no lookups run during a pass, as the property's clause requires"})
}
