//go:build verif_sched

package fracmanager

// C07 — concurrent ingest, search, fetch, sealing and rotation never corrupt readers.
// Exhaustive interleavings (cooperative scheduler, iterative preemption bounding) of small, sharp
// harnesses on the real code (sync -> vsync by the overlay; the per-fraction fan-out of Searcher /
// Fetcher becomes controlled threads; the indexer runs the real appendWorker body from a controlled
// thread):
//   H1 active index: writer || 1-2 indexer threads || reader (search then fetch)
//   H1r concurrent repeats (C17): two bulks sharing a document, two indexer threads
//   H2 hand-over: proxyFrac.Append || indexer || proxyFrac.Seal || reader (Searcher + Fetcher)
//   H3 rotation: fm.Append || indexer || rotate+seal || reader over GetAllFracs
//   H4 eviction: two readers on a sealed fraction || cache cleaner passes with a tiny budget
// Oracle in every execution: no panic, no deadlock, no error; every returned ID belongs to a submitted
// bulk, satisfies the query and is fetched immediately with exactly its bytes; at quiescence all
// acknowledged documents are visible and answers equal the reference.

import (
	"context"
	"encoding/json"
	"fmt"
	"os"
	"path/filepath"
	"runtime"
	"sort"
	"strings"
	"sync"
	"sync/atomic"
	"testing"
	"time"

	"github.com/ozontech/seq-db/conf"
	"github.com/ozontech/seq-db/consts"
	"github.com/ozontech/seq-db/disk"
	"github.com/ozontech/seq-db/frac"
	"github.com/ozontech/seq-db/seq"
	"github.com/ozontech/seq-db/zzverif/refdb"
	"github.com/ozontech/seq-db/zzverif/vfrac"
	"github.com/ozontech/seq-db/zzverif/vlib"
	"github.com/ozontech/seq-db/zzverif/vsched"
	"github.com/ozontech/seq-db/zzverif/vsync"
)

func c07Doc(i int) refdb.Doc {
	k := []string{"a", "b", "a", "c", "a"}[i%5]
	return refdb.Doc{ID: refdb.ID{MID: uint64(vfrac.BaseMID + i%2), RID: uint64(10 + i)}, Body: fmt.Sprintf(`{"i":%d,"pad":"%s"}`, i, strings.Repeat("y", i*3)),
		Toks: vfrac.WithExists([]refdb.Tok{{F: "k", V: k}, {F: "u", V: fmt.Sprint(i)}})}
}

func c07Bulk(idx ...int) []refdb.Doc {
	var d []refdb.Doc
	for _, i := range idx {
		d = append(d, c07Doc(i))
	}
	return d
}

var c07Queries []vfrac.ParsedQuery

func c07Init() {
	if c07Queries != nil {
		return
	}
	for _, q := range []refdb.Query{refdb.Lit{Field: "k", Pattern: "a"}, refdb.Not{X: refdb.Lit{Field: "k", Pattern: "a"}}} {
		pq, err := vfrac.Parse(q)
		if err != nil {
			panic(err)
		}
		c07Queries = append(c07Queries, pq)
	}
}

// world of one execution
type c07World struct {
	hmu       sync.Mutex // harness bookkeeping only (never held across a scheduling point)
	dir       string
	submitted map[refdb.ID]refdb.Doc
	errs      []string // oracle failures observed by threads (appended under the scheduler: one thread at a time)
	acked     []refdb.Doc
	cleanup   []func()
	deletable bool // retention may delete the fraction under the readers: a returned ID may then fetch as empty
}

func (w *c07World) fail(format string, a ...any) {
	w.hmu.Lock()
	w.errs = append(w.errs, fmt.Sprintf(format, a...))
	w.hmu.Unlock()
}

func (w *c07World) ack(docs []refdb.Doc) {
	w.hmu.Lock()
	w.acked = append(w.acked, docs...)
	w.hmu.Unlock()
}

func (w *c07World) submit(docs []refdb.Doc) {
	for _, d := range docs {
		w.submitted[d.ID] = d
	}
}

// readerPass: search every query, check every returned ID, fetch it immediately.
func (w *c07World) readerPass(who string, search func(pq vfrac.ParsedQuery) ([]seq.IDSource, error), fetch func(ids []seq.IDSource) ([][]byte, error)) {
	for _, pq := range c07Queries {
		ids, err := search(pq)
		if err != nil {
			w.fail("%s: search %s error: %v", who, pq.Text, err)
			continue
		}
		seen := map[refdb.ID]bool{}
		for _, id := range ids {
			rid := vfrac.RefID(id.ID)
			d, ok := w.submitted[rid]
			if !ok {
				w.fail("%s: search %s returned id %v that belongs to no submitted bulk", who, pq.Text, rid)
				continue
			}
			if seen[rid] {
				w.fail("%s: search %s returned id %v twice", who, pq.Text, rid)
			}
			seen[rid] = true
			if !refdb.Match(pq.Ref, &d) {
				w.fail("%s: search %s returned id %v which does not satisfy the query", who, pq.Text, rid)
			}
		}
		if len(ids) == 0 {
			continue
		}
		docs, err := fetch(ids)
		if err != nil {
			w.fail("%s: fetch after search %s error: %v", who, pq.Text, err)
			continue
		}
		for i, id := range ids {
			d := w.submitted[vfrac.RefID(id.ID)]
			if w.deletable && i < len(docs) && len(docs[i]) == 0 {
				continue
			}
			if i >= len(docs) || string(docs[i]) != d.Body {
				got := "<missing>"
				if i < len(docs) {
					got = string(docs[i])
				}
				w.fail("%s: id %v returned by search %s fetched as %q, want %q", who, vfrac.RefID(id.ID), pq.Text, got, d.Body)
			}
		}
	}
}

// finalCheck: all acked docs visible; answers equal the reference over acked (+ possibly unacked-but-written) docs.
func (w *c07World) finalCheck(search func(pq vfrac.ParsedQuery) ([]seq.IDSource, error), fetch func(ids []seq.IDSource) ([][]byte, error), exact bool) {
	acked := refdb.Dedup(w.acked)
	for _, pq := range c07Queries {
		ids, err := search(pq)
		if err != nil {
			w.fail("final: search %s error: %v", pq.Text, err)
			continue
		}
		got := map[refdb.ID]bool{}
		var gl []refdb.ID
		for _, id := range ids {
			got[vfrac.RefID(id.ID)] = true
			gl = append(gl, vfrac.RefID(id.ID))
		}
		want, _ := refdb.Search(acked, pq.Ref, 0, vfrac.MaxMID, false, 1000)
		for _, id := range want {
			if !got[id] {
				w.fail("final: acknowledged document %v is not visible for %s (got %v)", id, pq.Text, gl)
			}
		}
		if exact && fmt.Sprint(gl) != fmt.Sprint(want) && !(len(gl) == 0 && len(want) == 0) {
			w.fail("final: search %s = %v, sequential reference %v", pq.Text, gl, want)
		}
	}
	var src []seq.IDSource
	for _, d := range acked {
		src = append(src, seq.IDSource{ID: vfrac.SeqID(d.ID)})
	}
	if len(src) > 0 {
		docs, err := fetch(src)
		if err != nil {
			w.fail("final: fetch error: %v", err)
		} else {
			for i, d := range acked {
				if string(docs[i]) != d.Body {
					w.fail("final: acknowledged document %v fetched as %q", d.ID, docs[i])
				}
			}
		}
	}
}

type c07Scenario struct {
	name string
	mk   func() (*c07World, []func(), func())
}

func newC07World() *c07World {
	return &c07World{dir: vfrac.MkTmp("c07"), submitted: map[refdb.ID]refdb.Doc{}}
}

func (w *c07World) close() {
	done := make(chan struct{})
	go func() {
		for i := len(w.cleanup) - 1; i >= 0; i-- {
			vlib.Catch(w.cleanup[i])
		}
		close(done)
	}()
	select {
	case <-done:
	case <-time.After(30 * time.Second):
		// a lock is still held by something that went wrong in this execution: abandon the instance
		w.fail("cleanup (Suicide of the fractions) did not finish within 30 s: a lock is still held after the execution")
	}
	os.RemoveAll(w.dir)
}

// indexerLoop runs the real appendWorker body on queued tasks until `done()` and the queue is empty.
func indexerLoop(ai *frac.ActiveIndexer, done func() bool) func() {
	return func() {
		for {
			if ai.VerifProcessOne() {
				continue
			}
			if done() && ai.VerifPending() == 0 {
				return
			}
			t := vsched.Cur()
			if t == nil { // free-running mode (race pass): plain polling
				runtime.Gosched()
				continue
			}
			vsched.Block(t, func() bool { return ai.VerifPending() == 0 && !done() }, "indexer-idle")
		}
	}
}

func directSearch(f frac.Fraction) func(pq vfrac.ParsedQuery) ([]seq.IDSource, error) {
	return func(pq vfrac.ParsedQuery) ([]seq.IDSource, error) {
		qpr, err := vfrac.Search(f, vfrac.Params(pq, 0, vfrac.MaxMID, false, 100, false))
		if err != nil {
			return nil, err
		}
		return qpr.IDs, nil
	}
}

func directFetch(f frac.Fraction) func(ids []seq.IDSource) ([][]byte, error) {
	return func(ids []seq.IDSource) ([][]byte, error) {
		// the real fetch path only asks fractions whose range contains the MID
		res := make([][]byte, len(ids))
		var in []seq.ID
		var pos []int
		for i, id := range ids {
			if f.Contains(id.ID.MID) {
				in = append(in, id.ID)
				pos = append(pos, i)
			}
		}
		if len(in) == 0 {
			return res, nil
		}
		docs, err := vfrac.Fetch(f, in)
		if err != nil {
			return nil, err
		}
		for j, p := range pos {
			res[p] = docs[j]
		}
		return res, nil
	}
}

// providerFetch asks the fraction's data provider for every ID (no Contains pre-filter); a provider of a deleted
// fraction answers with nothing.
func providerFetch(f frac.Fraction) func(ids []seq.IDSource) ([][]byte, error) {
	return func(ids []seq.IDSource) ([][]byte, error) {
		in := make([]seq.ID, len(ids))
		for i, id := range ids {
			in[i] = id.ID
		}
		docs, err := vfrac.Fetch(f, in)
		if err != nil {
			return nil, err
		}
		res := make([][]byte, len(ids))
		copy(res, docs)
		return res, nil
	}
}

func listSearch(get func() List, fpi int) func(pq vfrac.ParsedQuery) ([]seq.IDSource, error) {
	return func(pq vfrac.ParsedQuery) ([]seq.IDSource, error) {
		s := NewSearcher(4, SearcherCfg{FractionsPerIteration: fpi})
		qpr, err := s.SearchDocs(context.Background(), get(), vfrac.Params(pq, 0, vfrac.MaxMID, false, 100, false))
		if err != nil {
			return nil, err
		}
		return qpr.IDs, nil
	}
}

func listFetch(get func() List) func(ids []seq.IDSource) ([][]byte, error) {
	return func(ids []seq.IDSource) ([][]byte, error) {
		return NewFetcher(4).FetchDocs(context.Background(), get(), ids)
	}
}

// seqSearch / seqFetch visit the fractions one after another from the calling thread (what the
// Searcher / Fetcher do per fraction, without their fan-out goroutines)
func seqSearch(get func() List) func(pq vfrac.ParsedQuery) ([]seq.IDSource, error) {
	return func(pq vfrac.ParsedQuery) ([]seq.IDSource, error) {
		var all []seq.IDSource
		seen := map[seq.ID]bool{}
		for _, f := range get() {
			ids, err := directSearch(f)(pq)
			if err != nil {
				return nil, err
			}
			for _, id := range ids {
				if !seen[id.ID] {
					seen[id.ID] = true
					all = append(all, id)
				}
			}
		}
		return all, nil
	}
}

func seqFetch(get func() List) func(ids []seq.IDSource) ([][]byte, error) {
	return func(ids []seq.IDSource) ([][]byte, error) {
		res := make([][]byte, len(ids))
		for _, f := range get() {
			docs, err := directFetch(f)(ids)
			if err != nil {
				return nil, err
			}
			for i, d := range docs {
				if len(d) > 0 {
					res[i] = d
				}
			}
		}
		return res, nil
	}
}

func newFP(ai *frac.ActiveIndexer, cacheSize uint64) *fractionProvider {
	return &fractionProvider{
		config:        &frac.Config{},
		cacheProvider: NewCacheMaintainer(cacheSize, cacheSize/2, nil),
		activeIndexer: ai,
		readLimiter:   disk.NewReadLimiter(4, nil),
	}
}

func c07Scenarios() []c07Scenario {
	c07Init()
	conf.SkipFsync = true
	conf.IndexWorkers = 1
	conf.ReaderWorkers = 2
	var res []c07Scenario

	// ---- H1: active index ----
	h1 := func(name string, bulks [][]int, indexers, readers int) c07Scenario {
		return c07Scenario{name, func() (*c07World, []func(), func()) {
			w := newC07World()
			ai := frac.VerifNewIndexer(16)
			fp := newFP(ai, 64*consts.MB)
			a := fp.NewActive(w.dir + "/seq-db-H1")
			w.cleanup = append(w.cleanup, a.Suicide)
			var wg vfrac.WG
			var written atomic.Int32
			for _, b := range bulks {
				w.submit(c07Bulk(b...))
			}
			bodies := []func(){func() { // writer
				for _, b := range bulks {
					docs := c07Bulk(b...)
					d, m := vfrac.BuildBulk(docs, 1)
					wg.Add(1)
					if err := a.Append(d, m, &wg); err != nil {
						w.fail("append error: %v", err)
						wg.Done()
					} else {
						w.ack(docs) // acknowledged once indexed; judged at quiescence
					}
					written.Add(1)
				}
			}}
			for i := 0; i < indexers; i++ {
				bodies = append(bodies, indexerLoop(ai, func() bool { return int(written.Load()) == len(bulks) }))
			}
			for i := 0; i < readers; i++ {
				who := fmt.Sprintf("reader%d", i)
				bodies = append(bodies, func() { w.readerPass(who, directSearch(a), directFetch(a)) })
			}
			return w, bodies, func() {
				wg.Wait()
				w.finalCheck(directSearch(a), directFetch(a), true)
				if dt := int(a.Info().DocsTotal); dt != len(refdb.Dedup(w.acked)) {
					w.fail("final: Info.DocsTotal=%d, distinct acknowledged documents=%d", dt, len(refdb.Dedup(w.acked)))
				}
			}
		}}
	}
	res = append(res, h1("H1 writer+indexer+reader", [][]int{{0, 1}, {2}}, 1, 1))
	res = append(res, h1("H1 writer+2 indexers+reader", [][]int{{0, 1}, {2, 3}}, 2, 1))
	res = append(res, h1("H1r concurrent repeats: 2 indexers on overlapping bulks", [][]int{{0, 1}, {1, 2}}, 2, 1))
	res = append(res, h1("H1r whole-bulk repeat, 2 indexers, no reader", [][]int{{0, 1}, {0, 1}}, 2, 0))

	// ---- H8: a fetch by ID that does not come from a search on this store (the Fetch API asks every store; the ID
	// may come from a replica that is ahead): the bulk that carries the ID is being written and indexed while the
	// fetch runs. Every entry is the document's bytes or empty, never an error.
	res = append(res, c07Scenario{"H8 fetch by ID of a bulk that is being written", func() (*c07World, []func(), func()) {
		w := newC07World()
		ai := frac.VerifNewIndexer(16)
		fp := newFP(ai, 64*consts.MB)
		a := fp.NewActive(w.dir + "/seq-db-H8")
		w.cleanup = append(w.cleanup, a.Suicide)
		var wg vfrac.WG
		pre := c07Bulk(0, 1) // the fraction's time range covers the IDs of the second bulk already
		w.submit(pre)
		d0, m0 := vfrac.BuildBulk(pre, 1)
		wg.Add(1)
		if err := a.Append(d0, m0, &wg); err != nil {
			panic(err)
		}
		for ai.VerifProcessOne() {
		}
		w.acked = append(w.acked, pre...)
		second := c07Bulk(2, 3)
		w.submit(second)
		var written atomic.Bool
		all := append(append([]refdb.Doc{}, pre...), second...)
		var src []seq.IDSource
		for _, d := range all {
			src = append(src, seq.IDSource{ID: vfrac.SeqID(d.ID)})
		}
		bodies := []func(){
			func() {
				d, m := vfrac.BuildBulk(second, 1)
				wg.Add(1)
				if err := a.Append(d, m, &wg); err != nil {
					w.fail("append error: %v", err)
					wg.Done()
				} else {
					w.ack(second)
				}
				written.Store(true)
			},
			indexerLoop(ai, func() bool { return written.Load() }),
			func() {
				for pass := 0; pass < 2; pass++ {
					docs, err := directFetch(a)(src)
					if err != nil {
						w.fail("fetch by ID, pass %d: error: %v", pass, err)
						continue
					}
					for i, d := range all {
						if len(docs[i]) != 0 && string(docs[i]) != d.Body {
							w.fail("fetch by ID, pass %d: id %v fetched as %q, want %q or empty", pass, d.ID, docs[i], d.Body)
						}
						if i < len(pre) && len(docs[i]) == 0 {
							w.fail("fetch by ID, pass %d: acknowledged document %v not found", pass, d.ID)
						}
					}
				}
			},
		}
		return w, bodies, func() {
			wg.Wait()
			w.finalCheck(directSearch(a), directFetch(a), true)
		}
	}})

	// ---- H2: hand-over (seal / suicide) on one proxy fraction ----
	h2 := func(name string, suicide bool, readers int) c07Scenario {
		return c07Scenario{name, func() (*c07World, []func(), func()) {
			w := newC07World()
			ai := frac.VerifNewIndexer(16)
			fp := newFP(ai, 64*consts.MB)
			ref := fp.newActiveRef(fp.NewActive(w.dir + "/seq-db-H2"))
			pf := ref.frac
			w.cleanup = append(w.cleanup, pf.Suicide)
			// one bulk is in the fraction before the race starts
			pre := c07Bulk(0)
			w.submit(pre)
			d0, m0 := vfrac.BuildBulk(pre, 1)
			if err := pf.Append(d0, m0); err != nil {
				panic(err)
			}
			for ai.VerifProcessOne() {
			}
			w.acked = append(w.acked, pre...)
			bulks := [][]int{{1, 2}}
			for _, b := range bulks {
				w.submit(c07Bulk(b...))
			}
			var writersDone atomic.Bool
			sealed, suicided := false, false
			get := func() List { return List{pf} }
			bodies := []func(){
				func() { // writer
					for _, b := range bulks {
						docs := c07Bulk(b...)
						d, m := vfrac.BuildBulk(docs, 1)
						if err := pf.Append(d, m); err == nil {
							w.ack(docs)
						}
					}
					writersDone.Store(true)
				},
				indexerLoop(ai, func() bool { return writersDone.Load() }),
				func() { // sealer
					_, err := pf.Seal(frac.SealParams{IDsZstdLevel: 1, LIDsZstdLevel: 1, TokenListZstdLevel: 1, DocsPositionsZstdLevel: 1, TokenTableZstdLevel: 1, DocBlocksZstdLevel: 1})
					if err != nil && err != ErrSealingFractionSuicided {
						w.fail("seal error: %v", err)
					}
					sealed = err == nil
				},
			}
			if suicide {
				bodies = append(bodies, func() { pf.Suicide(); suicided = true })
			}
			for i := 0; i < readers; i++ {
				who := fmt.Sprintf("reader%d", i)
				bodies = append(bodies, func() { w.readerPass(who, directSearch(pf), directFetch(pf)) })
			}
			return w, bodies, func() {
				_ = sealed
				if suicided {
					return // a deleted fraction serves nothing; readers were judged on the way
				}
				w.finalCheck(listSearch(get, 1), listFetch(get), true)
			}
		}}
	}
	res = append(res, h2("H2 append+indexer+seal+reader", false, 1))

	// ---- H6: two fractions are sealed at the same time (every rotation seals in its own goroutine, so seals overlap
	// whenever a fraction fills faster than the previous one seals); afterwards every document of both is served
	res = append(res, c07Scenario{"H6 two overlapping seals", func() (*c07World, []func(), func()) {
		w := newC07World()
		ai := frac.VerifNewIndexer(16)
		fp := newFP(ai, 64*consts.MB)
		var pfs []*proxyFrac
		for i, bulk := range [][]int{{0, 1}, {2, 3}} {
			ref := fp.newActiveRef(fp.NewActive(fmt.Sprintf("%s/seq-db-H6-%d", w.dir, i)))
			pf := ref.frac
			w.cleanup = append(w.cleanup, pf.Suicide)
			docs := c07Bulk(bulk...)
			w.submit(docs)
			d, m := vfrac.BuildBulk(docs, 1)
			if err := pf.Append(d, m); err != nil {
				panic(err)
			}
			for ai.VerifProcessOne() {
			}
			w.acked = append(w.acked, docs...)
			pfs = append(pfs, pf)
		}
		get := func() List { return List{pfs[0], pfs[1]} }
		sealer := func(pf *proxyFrac) func() {
			return func() {
				if _, err := pf.Seal(frac.SealParams{IDsZstdLevel: 1, LIDsZstdLevel: 1, TokenListZstdLevel: 1, DocsPositionsZstdLevel: 1, TokenTableZstdLevel: 1, DocBlocksZstdLevel: 1}); err != nil {
					w.fail("seal error: %v", err)
				}
			}
		}
		bodies := []func(){sealer(pfs[0]), sealer(pfs[1])} // readers are judged in H2/H3/H5; here: what the two seals leave behind
		return w, bodies, func() { w.finalCheck(listSearch(get, 2), listFetch(get), true) }
	}})
	// (a Suicide racing with writes is retention, which is outside this property's quantifier)

	// ---- H9: the seal hand-over releases the caches of the active fraction while the cache cleaner runs its passes
	// under pressure (tiny budget: generations rotate and are evicted); afterwards everything is served.
	res = append(res, c07Scenario{"H9 seal hand-over (cache release) + cleaner passes (tiny cache)", func() (*c07World, []func(), func()) {
		w := newC07World()
		ai := frac.VerifNewIndexer(16)
		fp := newFP(ai, 4*consts.KB)
		pf := fp.newActiveRef(fp.NewActive(w.dir + "/seq-db-H9")).frac
		w.cleanup = append(w.cleanup, pf.Suicide)
		docs := c07Bulk(0, 1, 2, 3)
		w.submit(docs)
		d0, m0 := vfrac.BuildBulk(docs, 1)
		if err := pf.Append(d0, m0); err != nil {
			panic(err)
		}
		for ai.VerifProcessOne() {
		}
		w.acked = docs
		get := func() List { return List{pf} }
		// the active fraction's caches hold something before the race starts
		w.readerPass("warm-up", directSearch(pf), directFetch(pf))
		cm := fp.cacheProvider
		bodies := []func(){
			func() {
				if _, err := pf.Seal(frac.SealParams{IDsZstdLevel: 1, LIDsZstdLevel: 1, TokenListZstdLevel: 1, DocsPositionsZstdLevel: 1, TokenTableZstdLevel: 1, DocBlocksZstdLevel: 1}); err != nil {
					w.fail("seal error: %v", err)
				}
			},
			func() {
				for i := 0; i < 2; i++ {
					cm.rotate()
					cm.cleanup()
					cm.garbageCollection()
				}
			},
		}
		return w, bodies, func() { w.finalCheck(listSearch(get, 1), listFetch(get), true) }
	}})

	// ---- H7: retention deletes a sealed fraction under a reader. Deletion is not in the property's list of
	// interleaved operations, so what the readers SEE is not judged (a returned ID may fetch as empty) — but the
	// "no panic, deadlock or error" clause is, for requests that go through the fraction's data provider (which is
	// built to answer during and after a deletion): a request that overlaps the deletion still ends normally.
	// (proxyFrac.Contains / Info / IsIntersecting after a deletion are another matter, see DESIGN 7.1.)
	res = append(res, c07Scenario{"H7 reader on a sealed fraction + retention deletes it", func() (*c07World, []func(), func()) {
		w := newC07World()
		w.deletable = true
		ai := frac.VerifNewIndexer(16)
		fp := newFP(ai, 64*consts.MB)
		pf := fp.newActiveRef(fp.NewActive(w.dir + "/seq-db-H7")).frac
		docs := c07Bulk(0, 1, 2, 3)
		w.submit(docs)
		d0, m0 := vfrac.BuildBulk(docs, 1)
		if err := pf.Append(d0, m0); err != nil {
			panic(err)
		}
		for ai.VerifProcessOne() {
		}
		w.acked = docs
		if _, err := pf.Seal(frac.SealParams{IDsZstdLevel: 1, LIDsZstdLevel: 1, TokenListZstdLevel: 1, DocsPositionsZstdLevel: 1, TokenTableZstdLevel: 1, DocBlocksZstdLevel: 1}); err != nil {
			panic(err)
		}
		bodies := []func(){
			func() { w.readerPass("reader0", directSearch(pf), providerFetch(pf)) },
			func() { pf.Suicide() },
		}
		return w, bodies, func() {}
	}})

	// ---- R1 (property C15, run by TestVerifC15Sched): size-based retention reaches a fraction while it is being
	// sealed — one maintenance pass rotates a full fraction, starts its seal and then shrinks the store, and that
	// fraction is the oldest one over the limit. The seal and the deletion (the steps of shrinkSizes, in its order)
	// run as two threads. Afterwards nothing of the fraction is left on disk and a restart does not serve it.
	res = append(res, c07Scenario{"R1 retention deletes the fraction that is being sealed", func() (*c07World, []func(), func()) {
		w := newC07World()
		cfg := &Config{DataDir: w.dir, FracSize: 100 * consts.MB, TotalSize: 1000 * consts.MB, CacheSize: 64 * consts.MB}
		fm := NewFracManager(cfg)
		fm.fracProvider.Stop()
		ai := frac.VerifNewIndexer(16)
		fm.fracProvider = newFP(ai, 64*consts.MB)
		if err := fm.Load(context.Background()); err != nil {
			panic(err)
		}
		w.cleanup = append(w.cleanup, func() {
			for _, f := range fm.GetAllFracs() {
				f.Suicide()
			}
		})
		pre := c07Bulk(0, 1)
		w.submit(pre)
		d0, m0 := vfrac.BuildBulk(pre, 1)
		if err := fm.Append(context.Background(), d0, m0); err != nil {
			panic(err)
		}
		for ai.VerifProcessOne() {
		}
		victim := fm.Active().Info().Name()
		active := fm.rotate()
		bodies := []func(){
			func() { fm.seal(active) },
			func() { // shrinkSizes for one outsider
				outsider := fm.shiftFirstFrac()
				if outsider == nil || outsider.Info().Name() != victim {
					w.fail("harness: the oldest fraction is not the rotated one")
					return
				}
				fm.fracCache.RemoveFraction(outsider.Info().Name())
				outsider.Suicide()
			},
		}
		return w, bodies, func() {
			if err := fm.fracCache.SyncWithDisk(); err != nil {
				w.fail("frac cache sync: %v", err)
			}
			for _, f := range fm.GetAllFracs() {
				if f.Info().Name() == victim {
					w.fail("the deleted fraction is still in the list of fractions")
				}
			}
			ents, _ := os.ReadDir(w.dir)
			var left []string
			for _, e := range ents {
				if strings.HasPrefix(e.Name(), victim) {
					left = append(left, strings.TrimPrefix(e.Name(), victim))
				}
			}
			if len(left) > 0 {
				w.fail("files of the fraction deleted by retention are left on disk: %v", left)
			}
			// restart: the deleted documents must not come back
			fm2 := NewFracManager(&Config{DataDir: w.dir, FracSize: 100 * consts.MB, TotalSize: 1000 * consts.MB, CacheSize: 64 * consts.MB})
			fm2.fracProvider.Stop()
			fm2.fracProvider = newFP(frac.VerifNewIndexer(16), 64*consts.MB)
			if err := fm2.Load(context.Background()); err != nil {
				w.fail("restart after the deletion: %v", err)
				return
			}
			defer func() { // the restarted instance is closed again: thousands of executions share one process
				for _, f := range fm2.GetAllFracs() {
					f.Suicide()
				}
			}()
			get := func() List { return fm2.GetAllFracs() }
			for _, pq := range c07Queries {
				ids, err := listSearch(get, 2)(pq)
				if err != nil {
					w.fail("restart: search %s: %v", pq.Text, err)
				}
				for _, id := range ids {
					w.fail("restart: document %v of the fraction deleted by retention is served again (search %s)", vfrac.RefID(id.ID), pq.Text)
				}
			}
			for _, f := range fm2.GetAllFracs() {
				if f.Info().Name() == victim {
					w.fail("restart: the fraction deleted by retention is loaded again")
				}
			}
		}
	}})

	// ---- H3: rotation through the FracManager ----
	res = append(res, c07Scenario{"H3 fm.Append+indexer+rotate/seal+reader", func() (*c07World, []func(), func()) {
		w := newC07World()
		cfg := &Config{DataDir: w.dir, FracSize: 100 * consts.MB, TotalSize: 1000 * consts.MB, CacheSize: 64 * consts.MB}
		fm := NewFracManager(cfg)
		fm.fracProvider.Stop() // the free-running indexer is replaced by a controlled one
		ai := frac.VerifNewIndexer(16)
		fm.fracProvider = newFP(ai, 64*consts.MB)
		if err := fm.Load(context.Background()); err != nil {
			panic(err)
		}
		w.cleanup = append(w.cleanup, func() {
			for _, f := range fm.GetAllFracs() {
				f.Suicide()
			}
		})
		pre := c07Bulk(0)
		w.submit(pre)
		d0, m0 := vfrac.BuildBulk(pre, 1)
		if err := fm.Append(context.Background(), d0, m0); err != nil {
			panic(err)
		}
		for ai.VerifProcessOne() {
		}
		w.acked = append(w.acked, pre...)
		bulks := [][]int{{1, 2}}
		for _, b := range bulks {
			w.submit(c07Bulk(b...))
		}
		var writersDone atomic.Bool
		get := func() List { return fm.GetAllFracs() }
		bodies := []func(){
			func() {
				for _, b := range bulks {
					docs := c07Bulk(b...)
					d, m := vfrac.BuildBulk(docs, 1)
					if err := fm.Append(context.Background(), d, m); err != nil {
						w.fail("fm.Append error: %v", err)
					} else {
						w.ack(docs)
					}
				}
				writersDone.Store(true)
			},
			indexerLoop(ai, func() bool { return writersDone.Load() }),
			func() { // the maintenance step that rotates and seals
				active := fm.rotate()
				fm.seal(active)
			},
			func() { w.readerPass("reader", seqSearch(get), seqFetch(get)) },
		}
		return w, bodies, func() {
			w.finalCheck(listSearch(get, 2), listFetch(get), true)
		}
	}})

	// ---- H5: Searcher / Fetcher fan-out (controlled per-fraction worker threads) against a concurrent seal ----
	res = append(res, c07Scenario{"H5 Searcher+Fetcher fan-out over 2 fractions + seal of the active one", func() (*c07World, []func(), func()) {
		w := newC07World()
		ai := frac.VerifNewIndexer(16)
		fp := newFP(ai, 64*consts.MB)
		mkFrac := func(name string, idx ...int) *proxyFrac {
			pf := fp.newActiveRef(fp.NewActive(w.dir + "/" + name)).frac
			docs := c07Bulk(idx...)
			w.submit(docs)
			d, m := vfrac.BuildBulk(docs, 1)
			if err := pf.Append(d, m); err != nil {
				panic(err)
			}
			for ai.VerifProcessOne() {
			}
			w.acked = append(w.acked, docs...)
			return pf
		}
		p1 := mkFrac("seq-db-H5A", 0, 1)
		p2 := mkFrac("seq-db-H5B", 2, 3)
		if _, err := p1.Seal(frac.SealParams{IDsZstdLevel: 1, LIDsZstdLevel: 1, TokenListZstdLevel: 1, DocsPositionsZstdLevel: 1, TokenTableZstdLevel: 1, DocBlocksZstdLevel: 1}); err != nil {
			panic(err)
		}
		w.cleanup = append(w.cleanup, p1.Suicide, p2.Suicide)
		get := func() List { return List{p1, p2} }
		bodies := []func(){
			func() { w.readerPass("reader", listSearch(get, 2), listFetch(get)) },
			func() {
				if _, err := p2.Seal(frac.SealParams{IDsZstdLevel: 1, LIDsZstdLevel: 1, TokenListZstdLevel: 1, DocsPositionsZstdLevel: 1, TokenTableZstdLevel: 1, DocBlocksZstdLevel: 1}); err != nil {
					w.fail("seal error: %v", err)
				}
			},
		}
		return w, bodies, func() { w.finalCheck(listSearch(get, 1), listFetch(get), true) }
	}})

	// ---- H10: one request visits a bigger active-type fraction and then the current one while a bulk is in flight
	// there. Per-request scratch state (the pooled inversion table LID -> position) of the first visit is what the
	// second visit gets back from the pool (vsync.Pool: LIFO, emptied before every execution), so anything the
	// second visit relies on being zero / reset is exercised with the first visit's contents in it.
	res = append(res, c07Scenario{"H10 reader over a bigger fraction, then the current one with a bulk in flight", func() (*c07World, []func(), func()) {
		w := newC07World()
		ai := frac.VerifNewIndexer(16)
		fp := newFP(ai, 64*consts.MB)
		var wg vfrac.WG
		mkFrac := func(name string, idx ...int) *frac.Active {
			a := fp.NewActive(w.dir + "/" + name)
			docs := c07Bulk(idx...)
			w.submit(docs)
			d, m := vfrac.BuildBulk(docs, 1)
			wg.Add(1)
			if err := a.Append(d, m, &wg); err != nil {
				panic(err)
			}
			for ai.VerifProcessOne() {
			}
			w.acked = append(w.acked, docs...)
			w.cleanup = append(w.cleanup, a.Suicide)
			return a
		}
		// arrival order chosen so that in A the third document is the newest: slot 3 of A's inversion table holds
		// position 1, a valid position in B, whose third LID is the in-flight document
		fa := mkFrac("seq-db-H10A", 0, 2, 3, 1)
		fb := mkFrac("seq-db-H10B", 6, 8)
		second := c07Bulk(7)
		w.submit(second)
		var written atomic.Bool
		get := func() List { return List{fa, fb} }
		bodies := []func(){
			func() {
				d, m := vfrac.BuildBulk(second, 1)
				wg.Add(1)
				if err := fb.Append(d, m, &wg); err != nil {
					w.fail("append error: %v", err)
					wg.Done()
				} else {
					w.ack(second)
				}
				written.Store(true)
			},
			indexerLoop(ai, func() bool { return written.Load() }),
			func() { w.readerPass("reader", seqSearch(get), seqFetch(get)) },
		}
		return w, bodies, func() {
			wg.Wait()
			w.finalCheck(seqSearch(get), seqFetch(get), false)
		}
	}})

	// ---- H11: two bulks written concurrently to one active fraction, then the unsealed fraction is restarted
	// (replayed from a copy of its files = the image a kill -9 leaves at quiescence), more data is ingested and it
	// is restarted again. The order in which the two writers reserve their docs / meta offsets is explored
	// (vsched.ExtraPoints: FileWriter.Write's atomic offset reservation is a scheduling point here).
	res = append(res, c07Scenario{"H11 two concurrent writers on one active fraction, then restart, ingest, restart", func() (*c07World, []func(), func()) {
		vsched.ExtraPoints.Store(true)
		w := newC07World()
		ai := frac.VerifNewIndexer(16)
		fp := newFP(ai, 64*consts.MB)
		a := fp.NewActive(w.dir + "/seq-db-H11")
		w.cleanup = append(w.cleanup, a.Suicide)
		var wg vfrac.WG
		var written atomic.Int32
		bulks := [][]int{{0, 1, 2}, {3}}
		var bodies []func()
		for _, b := range bulks {
			docs := c07Bulk(b...)
			w.submit(docs)
			bodies = append(bodies, func() {
				d, m := vfrac.BuildBulk(docs, 1)
				wg.Add(1)
				if err := a.Append(d, m, &wg); err != nil {
					w.fail("append error: %v", err)
					wg.Done()
				} else {
					w.ack(docs)
				}
				written.Add(1)
			})
		}
		bodies = append(bodies, indexerLoop(ai, func() bool { return int(written.Load()) == len(bulks) }))
		restart := func(src string, n int) (*frac.Active, *frac.ActiveIndexer) {
			dst := fmt.Sprintf("%s/restart%d", w.dir, n)
			if err := os.MkdirAll(dst, 0o755); err != nil {
				panic(err)
			}
			files, _ := filepath.Glob(src + ".*")
			for _, f := range files {
				data, err := os.ReadFile(f)
				if err != nil {
					panic(err)
				}
				if err := os.WriteFile(filepath.Join(dst, filepath.Base(f)), data, 0o644); err != nil {
					panic(err)
				}
			}
			ai2 := frac.VerifNewIndexer(64)
			a2 := newFP(ai2, 64*consts.MB).NewActive(filepath.Join(dst, filepath.Base(src)))
			w.cleanup = append(w.cleanup, a2.Suicide)
			done := make(chan error, 1)
			go func() { done <- a2.Replay(context.Background()) }()
			for {
				select {
				case err := <-done:
					if err != nil {
						w.fail("restart %d: replay error: %v", n, err)
					}
					for ai2.VerifProcessOne() {
					}
					return a2, ai2
				default:
					if !ai2.VerifProcessOne() {
						runtime.Gosched()
					}
				}
			}
		}
		return w, bodies, func() {
			wg.Wait()
			w.finalCheck(directSearch(a), directFetch(a), true)
			a2, ai2 := restart(a.BaseFileName, 1)
			w.finalCheck(directSearch(a2), directFetch(a2), true)
			more := c07Bulk(4, 5)
			w.submit(more)
			d, m := vfrac.BuildBulk(more, 1)
			var wg2 vfrac.WG
			wg2.Add(1)
			if err := a2.Append(d, m, &wg2); err != nil {
				w.fail("append after restart: %v", err)
				return
			}
			for ai2.VerifProcessOne() {
			}
			wg2.Wait()
			w.ack(more)
			w.finalCheck(directSearch(a2), directFetch(a2), true)
			a3, _ := restart(a2.BaseFileName, 2)
			w.finalCheck(directSearch(a3), directFetch(a3), true)
		}
	}})

	// ---- H4: cache eviction under readers of a sealed fraction ----
	res = append(res, c07Scenario{"H4 two readers on a sealed fraction + cleaner passes (tiny cache)", func() (*c07World, []func(), func()) {
		w := newC07World()
		ai := frac.VerifNewIndexer(16)
		fp := newFP(ai, 4*consts.KB)
		ref := fp.newActiveRef(fp.NewActive(w.dir + "/seq-db-H4"))
		pf := ref.frac
		w.cleanup = append(w.cleanup, pf.Suicide)
		docs := c07Bulk(0, 1, 2, 3)
		w.submit(docs)
		d0, m0 := vfrac.BuildBulk(docs, 1)
		if err := pf.Append(d0, m0); err != nil {
			panic(err)
		}
		for ai.VerifProcessOne() {
		}
		w.acked = docs
		if _, err := pf.Seal(frac.SealParams{IDsZstdLevel: 1, LIDsZstdLevel: 1, TokenListZstdLevel: 1, DocsPositionsZstdLevel: 1, TokenTableZstdLevel: 1, DocBlocksZstdLevel: 1}); err != nil {
			panic(err)
		}
		get := func() List { return List{pf} }
		cm := fp.cacheProvider
		bodies := []func(){
			func() { w.readerPass("reader0", directSearch(pf), directFetch(pf)) },
			func() { w.readerPass("reader1", directSearch(pf), directFetch(pf)) },
			func() {
				for i := 0; i < 2; i++ {
					cm.rotate()
					cm.cleanup()
					cm.garbageCollection()
				}
			},
		}
		return w, bodies, func() { w.finalCheck(listSearch(get, 1), listFetch(get), true) }
	}})
	return res
}

// ---- exploration (in worker subprocesses: one scenario per job) ----

type c07Job struct {
	Scenario  string `json:"scenario"`
	Bound     int    `json:"bound"`
	MaxExecs  int    `json:"max_execs"`
	Choices   []int  `json:"choices,omitempty"` // replay one schedule
	Replay    bool   `json:"replay,omitempty"`
	DeadlineS int    `json:"deadline_s,omitempty"`
}

type c07Viol struct {
	Sig     string `json:"sig"`
	Choices []int  `json:"choices"`
	Detail  string `json:"detail"`
}

type c07Res struct {
	Execs      int       `json:"execs"`
	MaxPoints  int       `json:"max_points"`
	MaxThreads int       `json:"max_threads"`
	Capped     bool      `json:"capped"`
	Outcomes   int       `json:"outcomes"`
	Viols      []c07Viol `json:"viols"`
}

func c07Norm(s string) string {
	if i := strings.IndexByte(s, '\n'); i > 0 {
		s = s[:i]
	}
	out := []byte{}
	prevDigit := false
	for i := 0; i < len(s); i++ {
		c := s[i]
		if c >= '0' && c <= '9' {
			if !prevDigit {
				out = append(out, 'N')
			}
			prevDigit = true
			continue
		}
		prevDigit = false
		out = append(out, c)
	}
	s = string(out)
	if len(s) > 160 {
		s = s[:160]
	}
	return s
}

func c07Judge(sc c07Scenario, x *vsched.Exec, w *c07World) (string, string) {
	switch {
	case x.Diverged != "":
		return "HARNESS replay divergence", x.Diverged
	case x.Deadlock:
		return "deadlock", "no enabled thread"
	case x.Livelock:
		return "livelock", "step budget exhausted"
	case len(x.Panics()) > 0:
		return "panic " + c07Norm(x.Panics()[0]), strings.Join(x.Panics(), "\n")
	case len(w.errs) > 0:
		return c07Norm(w.errs[0]), strings.Join(w.errs, "\n")
	}
	return "", ""
}

func c07Handle(raw json.RawMessage) any {
	var job c07Job
	if err := json.Unmarshal(raw, &job); err != nil {
		panic(err)
	}
	var sc *c07Scenario
	for _, s := range c07Scenarios() {
		if s.name == job.Scenario {
			s := s
			sc = &s
		}
	}
	if sc == nil {
		panic("unknown scenario " + job.Scenario)
	}
	var res c07Res
	outcomes := map[string]bool{}
	var world *c07World
	var final func()
	deadline := time.Time{}
	if job.DeadlineS > 0 {
		deadline = time.Now().Add(time.Duration(job.DeadlineS) * time.Second)
	}
	seenSig := map[string]bool{}
	execsDone := 0
	mk := func() []func() {
		// pooled objects (sync.Pool -> vsync.Pool LIFO lists under the scheduler, incl. bytespool's size classes)
		// must not travel from one execution to the next: a replayed schedule sees the buffers the explored one saw
		vsync.ResetPools()
		vsched.ExtraPoints.Store(false) // a scenario that wants the optional points switches them on in its mk
		w, bodies, f := sc.mk()
		world, final = w, f
		// the final check runs as the last step of thread 0's life? No: after all threads ended, outside the scheduler.
		return bodies
	}
	check := func(x *vsched.Exec) bool {
		if !x.Deadlock && !x.Livelock && len(x.Panics()) == 0 && x.Diverged == "" {
			if p := vlib.Catch(final); p != nil {
				world.fail("final check panicked: %v", p)
			}
		}
		clean := !x.Deadlock && !x.Livelock && len(x.Panics()) == 0
		if clean {
			world.close() // a thread that died holding a lock poisons the instance: then leave it alone
		} else {
			os.RemoveAll(world.dir)
		}
		sig, detail := c07Judge(*sc, x, world)
		if sig != "" && !seenSig[sig] {
			seenSig[sig] = true
			res.Viols = append(res.Viols, c07Viol{Sig: sig, Choices: append([]int{}, x.Choices...), Detail: detail})
		}
		key := fmt.Sprint(len(world.acked), len(world.errs))
		outcomes[key] = true
		if len(res.Viols) >= 5 {
			return false
		}
		if !deadline.IsZero() && time.Now().After(deadline) {
			res.Capped = true
			return false
		}
		// the code under test leaks a descriptor here and there (sealedFracCache.SaveCacheToDisk never closes its
		// temporary file); thousands of executions share this process, so stop - as a cap, not a verdict - before
		// the process runs out of descriptors
		execsDone++
		if execsDone%256 == 0 {
			if ents, err := os.ReadDir("/proc/self/fd"); err == nil && len(ents) > 12000 {
				res.Capped = true
				return false
			}
		}
		return true
	}
	if job.Replay {
		x := vsched.Run(job.Choices, vsched.Options{}, mk()...)
		check(x)
		res.Execs = 1
		return res
	}
	st := vsched.Explore(job.Bound, vsched.Options{}, job.MaxExecs, mk, check)
	res.Execs, res.MaxPoints, res.MaxThreads = st.Execs, st.MaxPoints, st.MaxThreads
	res.Capped = res.Capped || st.Capped
	res.Outcomes = len(outcomes)
	return res
}

func TestVerifWorker(t *testing.T) {
	vlib.ServeWorker(map[string]vlib.Handler{"c07": c07Handle})
}

// c07Own keeps the scenarios whose name starts with the prefix (H: property C07, R: property C15).
func c07Own(scs []c07Scenario, prefix string) []c07Scenario {
	var res []c07Scenario
	for _, s := range scs {
		if strings.HasPrefix(s.name, prefix) {
			res = append(res, s)
		}
	}
	return res
}

type c07Case struct {
	Scenario string `json:"scenario"`
	Choices  []int  `json:"choices"`
}

func TestVerifC07(t *testing.T) {
	r := vlib.NewRun("C07")
	scs := c07Own(c07Scenarios(), "H")
	if only := os.Getenv("VERIF_C07_ONLY"); only != "" {
		var f []c07Scenario
		for _, s := range scs {
			if strings.Contains(s.name, only) {
				f = append(f, s)
			}
		}
		scs = f
	}
	pool := vlib.NewPool("c07", len(scs))
	defer pool.Close()
	var rc c07Case
	if r.LoadReplay(&rc) {
		var res c07Res
		jr, _ := pool.Do(c07Job{Scenario: rc.Scenario, Choices: rc.Choices, Replay: true}, &res, 120*time.Second)
		for _, v := range res.Viols {
			r.Violation(rc.Scenario+": "+v.Sig, rc, v.Detail)
		}
		if jr.Died {
			r.Violation(rc.Scenario+": process died", rc, jr.Stderr)
		}
		r.Finish(t, "model_checking", "replay", nil, nil)
		return
	}
	bound, deadline := 2, 100
	if r.Thorough() {
		bound, deadline = 3, 3000
	}
	type out struct {
		name string
		res  c07Res
	}
	outs := make([]out, len(scs))
	completedBy := make([]int, len(scs))
	vlib.Parallel(len(scs), len(scs), func(i int) {
		// iterative preemption bounding 0,1,2,... within a per-scenario time budget; the first bound that
		// does not finish is reported as capped (the bounds below it are complete)
		var last c07Res
		budget := time.Now().Add(time.Duration(deadline) * time.Second)
		completed := -1
		for b := 0; b <= bound; b++ {
			var res c07Res
			left := int(time.Until(budget).Seconds())
			if left < 5 {
				r.Cap(fmt.Sprintf("scenario %q: time budget used up after completing preemption bound %d", scs[i].name, completed))
				break
			}
			jr, err := pool.Do(c07Job{Scenario: scs[i].name, Bound: b, DeadlineS: left}, &res, time.Duration(left+600)*time.Second)
			if err != nil {
				panic(err)
			}
			if jr.Died || jr.Hung {
				r.Violation(scs[i].name+": exploration process died: "+c07Norm(c07FirstCause(jr.Stderr)), c07Case{Scenario: scs[i].name}, fmt.Sprintf("died=%v hung=%v exit=%s bound=%d\n%s", jr.Died, jr.Hung, jr.Exit, b, jr.Stderr))
				return
			}
			r.Add("evaluations", int64(res.Execs))
			r.Add("schedules", int64(res.Execs))
			r.Note("scenario %q bound=%d schedules=%d max_points=%d threads=%d capped=%v", scs[i].name, b, res.Execs, res.MaxPoints, res.MaxThreads, res.Capped)
			for _, v := range res.Viols {
				r.Violation(scs[i].name+": "+v.Sig, c07Case{Scenario: scs[i].name, Choices: v.Choices}, fmt.Sprintf("bound=%d choices=%v\n%s", b, v.Choices, v.Detail))
			}
			last = res
			if res.Capped {
				r.Cap(fmt.Sprintf("scenario %q: preemption bound %d stopped by the time budget after %d schedules (bound %d completed)", scs[i].name, b, res.Execs, completed))
				break
			}
			completed = b
		}
		r.Add("completed_bound_sum", int64(completed))
		completedBy[i] = completed
		outs[i] = out{scs[i].name, last}
		r.Distinct("nontrivial", scs[i].name)
	})
	sort.Slice(outs, func(i, j int) bool { return outs[i].name < outs[j].name })
	for _, o := range outs {
		r.Sample(map[string]any{"scenario": o.name, "schedules_at_deepest_bound": o.res.Execs, "max_points": o.res.MaxPoints, "threads": o.res.MaxThreads})
	}
	bounds := map[string]int{}
	for i, sc := range scs {
		bounds[sc.name] = completedBy[i]
	}
	ev := r.Get("evaluations")
	r.Finish(t, "model_checking",
		fmt.Sprintf("%d harness scenarios (H1 active index with 1-2 indexer threads, H1r concurrent re-delivery, H2 seal hand-over with and without Suicide, H3 rotation through the FracManager, H4 cache eviction under readers, H5 Searcher / Fetcher fan-out against a seal, H6 two overlapping seals, H7 a reader overlapping the retention delete of its sealed fraction - judged for panic / deadlock / error only, H8 fetch by ID of a bulk being written, H9 cache release against cleaner passes, H10 one request over a bigger fraction and then the current one with a bulk in flight - pooled scratch state, pools are deterministic LIFO lists emptied before every execution, H11 two concurrent writers on one active fraction followed by restart / ingest / restart with the offset reservations of FileWriter as scheduling points), each explored over ALL interleavings with 0..%d preemptions (iterative bounding; the deepest bound is time-capped and then reported as not exhaustive) at lock / rwlock / waitgroup / once / spawn granularity on the real code; every execution judged: no panic / deadlock / error, every returned ID submitted + matching + fetched with its bytes, at quiescence acknowledged documents visible and answers equal the sequential reference", len(scs), bound),
		map[string]any{
			"states":                        len(scs),
			"transitions":                   ev,
			"traces_validated_against_impl": ev,
			"preemption_bound_target":       bound,
			"preemption_bound_completed":    bounds,
		},
		[]string{"channel operations are not scheduling points: FileWriter.syncLoop and the TokenList workers are request/response helpers that run to completion while the caller holds the token", "the indexer is the real appendWorker body driven from a controlled thread (VerifProcessOne)", "unsynchronised accesses are invisible to a cooperative scheduler; they need the race detector"})
}

func c07FirstCause(stderr string) string {
	for _, l := range strings.Split(stderr, "\n") {
		if strings.HasPrefix(l, "panic:") || strings.HasPrefix(l, "fatal error:") || strings.Contains(l, "\"level\":\"fatal\"") {
			return l
		}
	}
	return "unknown"
}

// TestVerifC07Race is the free-running add-on pass: the same scenario bodies run as plain goroutines
// (no scheduler) in a binary built with -race, for a number of rounds. It is sampling, declared as such;
// the deciding step is the exhaustive exploration above. A data race report fails the binary and the
// driver turns it into a violation; oracle failures observed on the way are reported too.
func TestVerifC07Race(t *testing.T) {
	rounds := 60
	if os.Getenv("VERIF_TIER") == "thorough" {
		rounds = 600
	}
	total := 0
	for _, sc := range c07Own(c07Scenarios(), "H") {
		for i := 0; i < rounds; i++ {
			w, bodies, final := sc.mk()
			var wg sync.WaitGroup
			var mu sync.Mutex
			_ = mu
			for _, b := range bodies {
				wg.Add(1)
				b := b
				go func() {
					defer wg.Done()
					defer func() {
						if r := recover(); r != nil {
							mu.Lock()
							w.errs = append(w.errs, fmt.Sprintf("panic: %v", r))
							mu.Unlock()
						}
					}()
					b()
				}()
			}
			wg.Wait()
			if p := vlib.Catch(final); p != nil {
				w.errs = append(w.errs, fmt.Sprintf("final check panicked: %v", p))
			}
			if len(w.errs) > 0 {
				t.Errorf("FREE-RUN-FAILURE scenario=%q round=%d: %s", sc.name, i, strings.Join(w.errs, "; "))
			}
			w.close()
			total++
		}
	}
	fmt.Printf("RACE-PASS rounds_per_scenario=%d executions=%d\n", rounds, total)
}

// TestVerifC15Sched: property C15's retention clause under concurrency — the R scenarios, explored like the H
// scenarios (all interleavings, iterative preemption bounding), reported under C15.
func TestVerifC15Sched(t *testing.T) {
	r := vlib.NewRun("C15")
	scs := c07Own(c07Scenarios(), "R")
	pool := vlib.NewPool("c07", len(scs))
	defer pool.Close()
	var rc c07Case
	if r.LoadReplay(&rc) {
		if strings.HasPrefix(rc.Scenario, "R") {
			var res c07Res
			jr, _ := pool.Do(c07Job{Scenario: rc.Scenario, Choices: rc.Choices, Replay: true}, &res, 120*time.Second)
			for _, v := range res.Viols {
				r.Violation(rc.Scenario+": "+v.Sig, rc, v.Detail)
			}
			if jr.Died {
				r.Violation(rc.Scenario+": process died", rc, jr.Stderr)
			}
		}
		r.Finish(t, "model_checking", "replay", nil, nil)
		return
	}
	bound, deadline := 2, 100
	if r.Thorough() {
		bound, deadline = 4, 1500
	}
	bounds := map[string]int{}
	for _, sc := range scs {
		budget := time.Now().Add(time.Duration(deadline) * time.Second)
		completed := -1
		for b := 0; b <= bound; b++ {
			var res c07Res
			left := int(time.Until(budget).Seconds())
			if left < 5 {
				r.Cap(fmt.Sprintf("scenario %q: time budget used up after completing preemption bound %d", sc.name, completed))
				break
			}
			// a fresh worker process per bound: the code under test leaks descriptors (see c07Handle), and a
			// process that explored the lower bounds would reach the cap sooner
			bp := vlib.NewPool("c07", 1)
			jr, err := bp.Do(c07Job{Scenario: sc.name, Bound: b, DeadlineS: left}, &res, time.Duration(left+600)*time.Second)
			bp.Close()
			if err != nil {
				panic(err)
			}
			if jr.Died || jr.Hung {
				r.Violation(sc.name+": exploration process died: "+c07Norm(c07FirstCause(jr.Stderr)), c07Case{Scenario: sc.name}, fmt.Sprintf("died=%v hung=%v exit=%s bound=%d\n%s", jr.Died, jr.Hung, jr.Exit, b, jr.Stderr))
				break
			}
			r.Add("evaluations", int64(res.Execs))
			r.Add("schedules", int64(res.Execs))
			r.Note("scenario %q bound=%d schedules=%d max_points=%d threads=%d capped=%v", sc.name, b, res.Execs, res.MaxPoints, res.MaxThreads, res.Capped)
			for _, v := range res.Viols {
				r.Violation(sc.name+": "+v.Sig, c07Case{Scenario: sc.name, Choices: v.Choices}, fmt.Sprintf("bound=%d choices=%v\n%s", b, v.Choices, v.Detail))
			}
			if res.Capped {
				r.Cap(fmt.Sprintf("scenario %q: preemption bound %d stopped by the time budget after %d schedules (bound %d completed)", sc.name, b, res.Execs, completed))
				break
			}
			completed = b
		}
		bounds[sc.name] = completed
		r.Distinct("nontrivial", sc.name)
	}
	ev := r.Get("evaluations")
	r.Finish(t, "model_checking",
		fmt.Sprintf("concurrency part of C15: %d scenario (R1: one maintenance pass rotates a full fraction, starts its seal, and size-based retention picks that very fraction — fm.seal against the steps of shrinkSizes as two threads on the real FracManager), ALL interleavings with 0..%d preemptions at lock / rwlock / waitgroup granularity; after every execution: the fraction is out of the list, none of its files is left on disk, the frac cache is synced, and a restart (a fresh FracManager.Load of the directory) neither loads it nor serves any of its documents", len(scs), bound),
		map[string]any{"states": len(scs), "transitions": ev, "traces_validated_against_impl": ev, "preemption_bound_completed": bounds},
		[]string{"shrinkSizes' own goroutine for the deletion is the second controlled thread; its statements are repeated in the harness in the same order"})
}
