//go:build verif_sched

package frac

// Helpers added by the verif `sched` overlay (never part of a normal build): they let a harness run
// the REAL appendWorker body on one queued task from a thread it controls, instead of the
// free-running worker goroutines started by ActiveIndexer.Start.

// VerifNewIndexer returns an indexer whose workers are NOT started; chLen must be large enough for the
// harness never to block on Index().
func VerifNewIndexer(chLen int) *ActiveIndexer {
	return NewActiveIndexer(1, chLen)
}

// VerifPending is the number of queued index tasks.
func (ai *ActiveIndexer) VerifPending() int { return len(ai.ch) }

// VerifProcessOne takes one queued task (non-blocking) and runs the real appendWorker loop body on it.
func (ai *ActiveIndexer) VerifProcessOne() bool {
	select {
	case task := <-ai.ch:
		one := make(chan *indexTask, 1)
		one <- task
		close(one)
		tmp := &ActiveIndexer{ch: one, chMerge: ai.chMerge, workerCount: 1}
		tmp.appendWorker(0)
		return true
	default:
		return false
	}
}
