//go:build verif_proxy

package proxyapi

// C20 (proxy API part) — the field filter of a Fetch request reaches the search layer exactly as the client sent
// it. The real grpcV1.Fetch runs over a scripted SearchIngestor that records the search.FetchRequest. Every list
// of <= 2 names over an alphabet of 8 (ordinary, empty, blank, padded with spaces, upper case, non-ASCII, containing
// a dot, containing a quote — all legal JSON keys; repeats included) x allow / except: the names, their order and
// the mode the search layer receives are the client's, and so are the IDs. (What the stores do with a filter is the
// main part of the check; whether it survives failing calls is the proxy part.)

import (
	"context"
	"fmt"
	"io"
	"testing"
	"time"

	"github.com/ozontech/seq-db/pkg/seqproxyapi/v1"
	"github.com/ozontech/seq-db/proxy/search"
	"github.com/ozontech/seq-db/seq"
	"github.com/ozontech/seq-db/zzverif/vlib"
	"google.golang.org/grpc"
)

type c20pIngestor struct {
	SearchIngestor
	got *search.FetchRequest
}

type c20pDocs struct{ ids []seq.ID }

func (d *c20pDocs) Next() (search.StreamingDoc, error) {
	if len(d.ids) == 0 {
		return search.StreamingDoc{}, io.EOF
	}
	id := d.ids[0]
	d.ids = d.ids[1:]
	return search.StreamingDoc{ID: id, Data: []byte(`{}`)}, nil
}

func (f *c20pIngestor) Documents(_ context.Context, r search.FetchRequest) (search.DocsIterator, error) {
	f.got = &r
	return &c20pDocs{ids: append([]seq.ID{}, r.IDs...)}, nil
}

type c20pStream struct {
	grpc.ServerStream
	sent []*seqproxyapi.Document
}

func (s *c20pStream) Context() context.Context { return context.Background() }
func (s *c20pStream) Send(d *seqproxyapi.Document) error {
	s.sent = append(s.sent, d)
	return nil
}

type c20pCase struct {
	Names []string `json:"c20p_names"`
	Allow bool     `json:"allow"`
}

var c20pAlphabet = []string{"a", "", " ", " a ", "A", "é", "a.b", `q"k`}

func c20pRun(r *vlib.Run, c c20pCase) {
	r.Add("evaluations", 1)
	ing := &c20pIngestor{}
	g := newGrpcV1(APIConfig{SearchTimeout: time.Minute}, ing, nil, c06RL{}, nil)
	ids := []seq.ID{seq.SimpleID(300), seq.SimpleID(200), seq.SimpleID(100)}
	req := &seqproxyapi.FetchRequest{FieldsFilter: &seqproxyapi.FetchRequest_FieldsFilter{Fields: append([]string{}, c.Names...), AllowList: c.Allow}}
	for _, id := range ids {
		req.Ids = append(req.Ids, id.String())
	}
	sig := fmt.Sprintf("proxy-api fetch fields=%q allow=%v", c.Names, c.Allow)
	st := &c20pStream{}
	var err error
	if p := vlib.Catch(func() { err = g.Fetch(req, st) }); p != nil {
		r.Violation(sig+": panic", c, fmt.Sprint(p))
		return
	}
	if err != nil {
		r.Violation(sig+": valid request rejected", c, err.Error())
		return
	}
	if ing.got == nil {
		r.Violation(sig+": the search layer was not called", c, "")
		return
	}
	if fmt.Sprintf("%q", ing.got.FieldsFilter.Fields) != fmt.Sprintf("%q", c.Names) || ing.got.FieldsFilter.AllowList != c.Allow {
		r.Violation(sig+": the search layer receives another field filter than the client sent", c, fmt.Sprintf("sent %q allow=%v, received %q allow=%v", c.Names, c.Allow, ing.got.FieldsFilter.Fields, ing.got.FieldsFilter.AllowList))
	}
	if fmt.Sprint(ing.got.IDs) != fmt.Sprint(ids) || len(st.sent) != len(ids) {
		r.Violation(sig+": IDs", c, fmt.Sprintf("received %v, sent back %d documents", ing.got.IDs, len(st.sent)))
	}
	r.Distinct("nontrivial", sig)
}

func TestVerifC20ProxyAPI(t *testing.T) {
	r := vlib.NewRun("C20")
	var rc c20pCase
	if r.LoadReplay(&rc) {
		if rc.Names != nil {
			c20pRun(r, rc)
		}
		r.Finish(t, "model_checking", "replay", nil, nil)
		return
	}
	for _, allow := range []bool{true, false} {
		for _, a := range c20pAlphabet {
			c20pRun(r, c20pCase{Names: []string{a}, Allow: allow})
			for _, b := range c20pAlphabet {
				c20pRun(r, c20pCase{Names: []string{a, b}, Allow: allow})
			}
		}
	}
	r.Sample(c20pCase{Names: []string{" a ", ""}, Allow: true})
	ev := r.Get("evaluations")
	r.Finish(t, "model_checking",
		"proxy API part of C20: grpcV1.Fetch over a scripted search layer: every list of <=2 field names over 8 (ordinary, empty, blank, space-padded, upper case, non-ASCII, dotted, quoted; repeats included) x allow / except: the search layer receives the client's names, order, mode and IDs unchanged",
		map[string]any{"states": ev, "transitions": ev, "traces_validated_against_impl": ev},
		[]string{"the projection itself is judged by the main part of the check"})
}
