//go:build verif_proxy

package proxyapi

// C19 (proxy API part) — the asynchronous search as the CLIENT of the proxy starts and fetches it. The real
// grpcV1.StartAsyncSearch / FetchAsyncSearchResult run over a scripted SearchIngestor.
//  (a) start: every combination of 3 queries x 5 [from,to] ranges relative to the proxy's clock (both in the past,
//      to one hour / one year ahead, from ahead too, epoch..far future) x 2 orders x every list of <=2 aggregations
//      over 9 x histogram on/off: the search layer must receive exactly the request (query, from, to, order,
//      aggregations position by position, histogram interval) — a search that is started with another range or
//      another aggregation cannot end with "the same IDs, histogram and aggregations as a synchronous search".
//  (b) fetch: the search layer answers with k = 0, 1, 3 IDs, a histogram, two aggregations, done / not done; for
//      size 0, 1, 10 the handler must answer without error and carry exactly those IDs (in order), buckets and
//      aggregation values.

import (
	"context"
	"fmt"
	"testing"
	"time"

	"github.com/ozontech/seq-db/consts"
	"github.com/ozontech/seq-db/pkg/seqproxyapi/v1"
	"github.com/ozontech/seq-db/proxy/search"
	"github.com/ozontech/seq-db/seq"
	"github.com/ozontech/seq-db/zzverif/vlib"
	"google.golang.org/protobuf/types/known/timestamppb"
)

type c19pIngestor struct {
	SearchIngestor
	got   *search.AsyncRequest
	fetch search.FetchAsyncSearchResultResponse
}

func (f *c19pIngestor) StartAsyncSearch(_ context.Context, r search.AsyncRequest) (search.AsyncResponse, error) {
	f.got = &r
	return search.AsyncResponse{ID: "id-1"}, nil
}

func (f *c19pIngestor) FetchAsyncSearchResult(context.Context, search.FetchAsyncSearchResultRequest) (search.FetchAsyncSearchResultResponse, error) {
	return f.fetch, nil
}

type c19pCase struct {
	Kind  string `json:"c19p_kind"` // start | fetch
	Query string `json:"query,omitempty"`
	Range int    `json:"range,omitempty"`
	Asc   bool   `json:"asc,omitempty"`
	Aggs  []int  `json:"aggs,omitempty"`
	Hist  string `json:"hist,omitempty"`
	IDs   int    `json:"ids,omitempty"`
	Size  int    `json:"size,omitempty"`
	Done  bool   `json:"done,omitempty"`
}

func c19pRange(now time.Time, i int) (time.Time, time.Time) {
	switch i {
	case 0:
		return now.Add(-2 * time.Hour), now.Add(-time.Hour)
	case 1:
		return now.Add(-time.Hour), now.Add(time.Hour)
	case 2:
		return now.Add(-time.Hour), now.Add(365 * 24 * time.Hour)
	case 3:
		return now.Add(time.Minute), now.Add(10 * time.Minute)
	}
	return time.UnixMilli(0), time.UnixMilli(4102444800000) // 1970 .. 2100
}

func c19pStart(r *vlib.Run, c c19pCase) {
	r.Add("evaluations", 1)
	alpha := c06pAlphabet()
	ing := &c19pIngestor{}
	g := newGrpcV1(APIConfig{SearchTimeout: time.Minute}, ing, nil, c06RL{}, nil)
	from, to := c19pRange(time.Now(), c.Range)
	req := &seqproxyapi.StartAsyncSearchRequest{Query: &seqproxyapi.SearchQuery{Query: c.Query, From: timestamppb.New(from), To: timestamppb.New(to)}}
	if c.Asc {
		req.Order = seqproxyapi.Order_ORDER_ASC
	}
	for _, i := range c.Aggs {
		req.Aggs = append(req.Aggs, alpha[i])
	}
	if c.Hist != "" {
		req.Hist = &seqproxyapi.HistQuery{Interval: c.Hist}
	}
	sig := fmt.Sprintf("proxy-api async start q=%s range=%d asc=%v aggs=%v hist=%q", c.Query, c.Range, c.Asc, c.Aggs, c.Hist)
	var err error
	if p := vlib.Catch(func() { _, err = g.StartAsyncSearch(context.Background(), req) }); p != nil {
		r.Violation(sig+": panic", c, fmt.Sprint(p))
		return
	}
	if err != nil {
		r.Violation(sig+": valid request rejected", c, err.Error())
		return
	}
	got := ing.got
	if got == nil {
		r.Violation(sig+": the search layer was not called", c, "")
		return
	}
	wantOrder := seq.DocsOrderDesc
	if c.Asc {
		wantOrder = seq.DocsOrderAsc
	}
	if got.Query != c.Query || !got.From.Equal(from) || !got.To.Equal(to) || got.Order != wantOrder || got.HistogramInterval != c06pIntervals[c.Hist] {
		r.Violation(sig+": the search layer receives another request than the client sent", c,
			fmt.Sprintf("sent query=%q from=%s to=%s order=%v hist=%d\ngot  query=%q from=%s to=%s order=%v hist=%d", c.Query, from.UTC(), to.UTC(), wantOrder, c06pIntervals[c.Hist], got.Query, got.From.UTC(), got.To.UTC(), got.Order, got.HistogramInterval))
	}
	if len(got.Aggregations) != len(c.Aggs) {
		r.Violation(sig+": the search layer receives another number of aggregations", c, fmt.Sprintf("%d vs %d", len(got.Aggregations), len(c.Aggs)))
		return
	}
	for k, i := range c.Aggs {
		want, a := alpha[i], got.Aggregations[k]
		wiv := seq.MID(0)
		if want.Interval != nil {
			wiv = c06pIntervals[*want.Interval]
		}
		if a.Func != want.Func.MustAggFunc() || a.Field != want.Field || a.GroupBy != want.GroupBy || fmt.Sprint(a.Quantiles) != fmt.Sprint(want.Quantiles) || a.Interval != wiv {
			r.Violation(sig+": an aggregation reaches the search layer changed", c, fmt.Sprintf("position %d: requested %s, received func=%v field=%q group_by=%q quantiles=%v interval=%d", k, want.String(), a.Func, a.Field, a.GroupBy, a.Quantiles, a.Interval))
		}
	}
	r.Distinct("nontrivial", sig)
}

func c19pFetch(r *vlib.Run, c c19pCase) {
	r.Add("evaluations", 1)
	ing := &c19pIngestor{}
	qpr := seq.QPR{Histogram: map[seq.MID]uint64{1000: 2, 3000: 1}, Total: uint64(c.IDs)}
	for i := 0; i < c.IDs; i++ {
		qpr.IDs = append(qpr.IDs, seq.IDSource{ID: seq.ID{MID: seq.MID(5000 - i), RID: seq.RID(10 + i)}, Source: uint64(i % 2)})
	}
	aggs := []seq.AggregationResult{
		{Buckets: []seq.AggregationBucket{{Name: "g0", Value: 2, MID: consts.DummyMID}, {Name: "g1", Value: 1, MID: consts.DummyMID}}, NotExists: 1},
		{Buckets: []seq.AggregationBucket{{Name: "", Value: 7.5, MID: consts.DummyMID}}},
	}
	ing.fetch = search.FetchAsyncSearchResultResponse{Done: c.Done, Expiration: time.Unix(2000000000, 0), QPR: qpr, AggResult: aggs}
	g := newGrpcV1(APIConfig{SearchTimeout: time.Minute}, ing, nil, c06RL{}, nil)
	sig := fmt.Sprintf("proxy-api async fetch ids=%d size=%d done=%v", c.IDs, c.Size, c.Done)
	var resp *seqproxyapi.FetchAsyncSearchResultResponse
	var err error
	if p := vlib.Catch(func() {
		resp, err = g.FetchAsyncSearchResult(context.Background(), &seqproxyapi.FetchAsyncSearchResultRequest{SearchId: "id-1", Size: int32(c.Size)})
	}); p != nil {
		r.Violation(sig+": panic", c, fmt.Sprint(p))
		return
	}
	if err != nil {
		r.Violation(sig+": the result of a search cannot be fetched", c, err.Error())
		return
	}
	if resp.Done != c.Done {
		r.Violation(sig+": done flag", c, fmt.Sprint(resp.Done))
	}
	docs := resp.GetResponse().GetDocs()
	if len(docs) != c.IDs {
		r.Violation(sig+": number of IDs", c, fmt.Sprintf("got %d want %d", len(docs), c.IDs))
	} else {
		for i, d := range docs {
			if d.Id != qpr.IDs[i].ID.String() {
				r.Violation(sig+": IDs differ from the ones of the search layer", c, fmt.Sprintf("position %d: %s vs %s", i, d.Id, qpr.IDs[i].ID.String()))
				break
			}
		}
	}
	hist := map[int64]uint64{}
	for _, b := range resp.GetResponse().GetHist().GetBuckets() {
		hist[b.Ts.AsTime().UnixMilli()] = b.DocCount
	}
	if len(hist) != 2 || hist[1000] != 2 || hist[3000] != 1 {
		r.Violation(sig+": histogram differs from the one of the search layer", c, fmt.Sprint(hist))
	}
	pa := resp.GetResponse().GetAggs()
	if len(pa) != 2 || len(pa[0].Buckets) != 2 || pa[0].Buckets[0].Key != "g0" || pa[0].Buckets[0].Value != 2 || pa[0].Buckets[1].Key != "g1" || pa[0].Buckets[1].Value != 1 || pa[0].NotExists != 1 || len(pa[1].Buckets) != 1 || pa[1].Buckets[0].Value != 7.5 {
		r.Violation(sig+": aggregations differ from the ones of the search layer", c, fmt.Sprint(pa))
	}
	r.Distinct("nontrivial", sig)
}

func TestVerifC19ProxyAPI(t *testing.T) {
	r := vlib.NewRun("C19")
	var rc c19pCase
	if r.LoadReplay(&rc) {
		switch rc.Kind {
		case "start":
			c19pStart(r, rc)
		case "fetch":
			c19pFetch(r, rc)
		}
		r.Finish(t, "model_checking", "replay", nil, nil)
		return
	}
	n := len(c06pAlphabet())
	var lists [][]int
	lists = append(lists, nil)
	for i := 0; i < n; i++ {
		lists = append(lists, []int{i})
		for j := 0; j < n; j++ {
			lists = append(lists, []int{i, j})
		}
	}
	for _, q := range []string{"*", "service:a", `message:"x y" and not level:3`} {
		for rg := 0; rg < 5; rg++ {
			for _, asc := range []bool{false, true} {
				for _, l := range lists {
					for _, h := range []string{"", "5s"} {
						c19pStart(r, c19pCase{Kind: "start", Query: q, Range: rg, Asc: asc, Aggs: l, Hist: h})
					}
				}
			}
		}
	}
	for _, ids := range []int{0, 1, 3} {
		for _, size := range []int{0, 1, 10} {
			for _, done := range []bool{true, false} {
				c19pFetch(r, c19pCase{Kind: "fetch", IDs: ids, Size: size, Done: done})
			}
		}
	}
	r.Sample(c19pCase{Kind: "start", Query: "*", Range: 2, Aggs: []int{1}})
	ev := r.Get("evaluations")
	r.Finish(t, "model_checking",
		"proxy API part of C19: grpcV1.StartAsyncSearch over a scripted search layer: 3 queries x 5 time ranges relative to the proxy's clock (incl. ranges ending and starting in the future) x 2 orders x every list of <=2 aggregations over 9 x histogram on/off — the search layer receives exactly the client's request; grpcV1.FetchAsyncSearchResult: 0 / 1 / 3 IDs x size 0 / 1 / 10 x done / not done — the client receives exactly the IDs, histogram and aggregations of the search layer, without error",
		map[string]any{"states": ev, "transitions": ev, "traces_validated_against_impl": ev},
		[]string{"the search layer itself is judged by the other parts of the check"})
}
