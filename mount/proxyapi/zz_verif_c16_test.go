//go:build verif_proxy

package proxyapi

// C16 (proxy API part) — the partial flag, the IDs and the documents as the CLIENT of the proxy sees them.
// The real grpcV1.Search and grpcV1.ComplexSearch run over the real search.Ingestor over scripted store replicas
// (2 shards x 2 replicas). Enumerated exhaustively: which replicas answer Search (2^4) x which replicas deliver
// Fetch (2^4) x 4 queries (hits on both shards / only on shard 0 / only on shard 1 / nowhere) x 5 pages
// (size, offset — including pages behind the last hit) x the two RPCs. Oracle, straight from the property: the
// request fails, or the IDs are the requested page of the merged matching documents of exactly the shards that
// had an answering replica, partial_response (and error code PARTIAL_RESPONSE) is set exactly when some shard had
// no answering replica, the i-th document is the document of the i-th ID or is empty — and empty only when a
// Fetch call to that document's shard really failed.

import (
	"context"
	"errors"
	"fmt"
	"io"
	"sort"
	"sync"
	"testing"
	"time"

	"google.golang.org/grpc"
	"google.golang.org/protobuf/types/known/timestamppb"

	"github.com/ozontech/seq-db/consts"
	"github.com/ozontech/seq-db/disk"
	"github.com/ozontech/seq-db/pkg/seqproxyapi/v1"
	"github.com/ozontech/seq-db/pkg/storeapi"
	"github.com/ozontech/seq-db/proxy/search"
	"github.com/ozontech/seq-db/proxy/stores"
	"github.com/ozontech/seq-db/seq"
	"github.com/ozontech/seq-db/zzverif/vlib"
	"github.com/ozontech/seq-db/zzverif/vrand"
)

type c16pCase struct {
	SearchOK int    `json:"search_ok"` // bit r set: replica r (shard r/2) answers Search
	FetchOK  int    `json:"fetch_ok"`  // bit r set: replica r delivers Fetch
	Query    string `json:"query"`
	Size     int64  `json:"size"`
	Offset   int64  `json:"offset"`
	Complex  bool   `json:"complex"`
}

type c16pDoc struct {
	id    seq.ID
	shard int
	tags  string // the queries that select it
	body  []byte
}

var c16pDocs = func() []c16pDoc {
	base := time.UnixMilli(1_700_000_000_000)
	mk := func(sec int, rid uint64, shard int, tags string) c16pDoc {
		return c16pDoc{id: seq.NewID(base.Add(time.Duration(sec)*time.Second), rid), shard: shard, tags: tags,
			body: []byte(fmt.Sprintf(`{"n":%d,"shard":%d}`, rid, shard))}
	}
	return []c16pDoc{
		mk(5, 11, 0, "all,a"), mk(4, 22, 1, "all,b"), mk(3, 33, 0, "all,a"), mk(2, 44, 1, "all,b"), mk(1, 55, 0, "a"),
	}
}()

func c16pSelects(d c16pDoc, q string) bool {
	for _, t := range splitComma(d.tags) {
		if "q:"+t == q {
			return true
		}
	}
	return false
}

func splitComma(s string) []string {
	var res []string
	cur := ""
	for _, c := range s {
		if c == ',' {
			res = append(res, cur)
			cur = ""
		} else {
			cur += string(c)
		}
	}
	return append(res, cur)
}

type c16pStore struct {
	storeapi.StoreApiClient
	shard             int
	searchOK, fetchOK bool
	mu                *sync.Mutex
	failedFetch       *[2]int // failed Fetch calls per shard
}

func (s *c16pStore) Search(_ context.Context, in *storeapi.SearchRequest, _ ...grpc.CallOption) (*storeapi.SearchResponse, error) {
	if !s.searchOK {
		return nil, errors.New("connection refused")
	}
	var ids []seq.ID
	for _, d := range c16pDocs {
		if d.shard == s.shard && c16pSelects(d, in.Query) {
			ids = append(ids, d.id)
		}
	}
	total := len(ids)
	sort.Slice(ids, func(i, j int) bool { return seq.Less(ids[j], ids[i]) })
	if limit := int(in.Size + in.Offset); len(ids) > limit {
		ids = ids[:limit]
	}
	resp := &storeapi.SearchResponse{Total: uint64(total)}
	for _, id := range ids {
		resp.IdSources = append(resp.IdSources, &storeapi.SearchResponse_IdWithHint{Id: &storeapi.SearchResponse_Id{Mid: uint64(id.MID), Rid: uint64(id.RID)}})
	}
	return resp, nil
}

type c16pStream struct {
	grpc.ClientStream
	blocks [][]byte
}

func (f *c16pStream) Recv() (*storeapi.BinaryData, error) {
	if len(f.blocks) == 0 {
		return nil, io.EOF
	}
	b := f.blocks[0]
	f.blocks = f.blocks[1:]
	return &storeapi.BinaryData{Data: b}, nil
}

func (s *c16pStore) Fetch(_ context.Context, in *storeapi.FetchRequest, _ ...grpc.CallOption) (storeapi.StoreApi_FetchClient, error) {
	if !s.fetchOK {
		s.mu.Lock()
		s.failedFetch[s.shard]++
		s.mu.Unlock()
		return nil, errors.New("connection refused")
	}
	st := &c16pStream{}
	for _, idStr := range in.Ids {
		id, err := seq.FromString(idStr)
		if err != nil {
			return nil, err
		}
		var body []byte
		for _, d := range c16pDocs {
			if d.id == id && d.shard == s.shard {
				body = d.body
			}
		}
		block := disk.PackDocBlock(body, nil)
		block.SetExt1(uint64(id.MID))
		block.SetExt2(uint64(id.RID))
		st.blocks = append(st.blocks, block)
	}
	return st, nil
}

func c16pRun(r *vlib.Run, c c16pCase) {
	r.Add("evaluations", 1)
	var mu sync.Mutex
	var failed [2]int
	names := []string{"a1", "a2", "b1", "b2"}
	clients := map[string]storeapi.StoreApiClient{}
	for i, n := range names {
		clients[n] = &c16pStore{shard: i / 2, searchOK: c.SearchOK&(1<<i) != 0, fetchOK: c.FetchOK&(1<<i) != 0, mu: &mu, failedFetch: &failed}
	}
	si := search.NewIngestor(search.Config{
		HotStores:   &stores.Stores{Shards: [][]string{{"a1", "a2"}, {"b1", "b2"}}},
		ReadStores:  &stores.Stores{Shards: [][]string{}},
		WriteStores: &stores.Stores{Shards: [][]string{}},
	}, clients)
	g := newGrpcV1(APIConfig{SearchTimeout: consts.DefaultSearchTimeout, ExportTimeout: consts.DefaultExportTimeout}, si, nil, c06RL{}, nil)
	q := &seqproxyapi.SearchQuery{Query: c.Query, From: timestamppb.New(time.UnixMilli(1_600_000_000_000)), To: timestamppb.New(time.UnixMilli(1_800_000_000_000))}
	sig := fmt.Sprintf("proxy-api search_ok=%04b fetch_ok=%04b q=%s size=%d offset=%d complex=%v", c.SearchOK, c.FetchOK, c.Query, c.Size, c.Offset, c.Complex)

	var partial bool
	var code seqproxyapi.ErrorCode
	var docs []*seqproxyapi.Document
	var err error
	if p := vlib.Catch(func() {
		if c.Complex {
			var resp *seqproxyapi.ComplexSearchResponse
			if resp, err = g.ComplexSearch(context.Background(), &seqproxyapi.ComplexSearchRequest{Query: q, Size: c.Size, Offset: c.Offset}); err == nil {
				partial, code, docs = resp.PartialResponse, resp.GetError().GetCode(), resp.Docs
			}
		} else {
			var resp *seqproxyapi.SearchResponse
			if resp, err = g.Search(context.Background(), &seqproxyapi.SearchRequest{Query: q, Size: c.Size, Offset: c.Offset}); err == nil {
				partial, code, docs = resp.PartialResponse, resp.GetError().GetCode(), resp.Docs
			}
		}
	}); p != nil {
		r.Violation(sig+": panic", c, fmt.Sprint(p))
		return
	}
	answered := [2]bool{c.SearchOK&3 != 0, c.SearchOK&12 != 0}
	if err != nil {
		r.Distinct("outcomes", "error")
		if c.SearchOK == 15 && c.FetchOK == 15 { // failing is a permitted answer to any store failure - not to none
			r.Violation(sig+": no store call failed but the request failed", c, err.Error())
		}
		return
	}
	if code != seqproxyapi.ErrorCode_ERROR_CODE_NO && code != seqproxyapi.ErrorCode_ERROR_CODE_PARTIAL_RESPONSE {
		r.Distinct("outcomes", "error-code")
		if c.SearchOK == 15 && c.FetchOK == 15 {
			r.Violation(sig+": no store call failed but the response carries an error", c, code.String())
		}
		return
	}
	var want []c16pDoc
	for _, d := range c16pDocs { // c16pDocs is in descending order already
		if answered[d.shard] && c16pSelects(d, c.Query) {
			want = append(want, d)
		}
	}
	if int(c.Offset) < len(want) {
		want = want[c.Offset:]
	} else {
		want = nil
	}
	if int(c.Size) < len(want) {
		want = want[:c.Size]
	}
	wantPartial := !(answered[0] && answered[1])
	if partial != wantPartial || (code == seqproxyapi.ErrorCode_ERROR_CODE_PARTIAL_RESPONSE) != wantPartial {
		r.Violation(sig+": partial flag", c, fmt.Sprintf("shards answered=%v: partial_response=%v error.code=%v, want partial=%v", answered, partial, code, wantPartial))
	}
	if len(docs) != len(want) {
		r.Violation(sig+": number of IDs", c, fmt.Sprintf("got %d want %d", len(docs), len(want)))
		return
	}
	for i, d := range docs {
		if d.Id != want[i].id.String() {
			r.Violation(sig+": IDs are not the requested page of the merged result", c, fmt.Sprintf("position %d: got %s want %s", i, d.Id, want[i].id.String()))
			return
		}
		switch {
		case string(d.Data) == string(want[i].body):
		case len(d.Data) == 0 && failed[want[i].shard] > 0:
			r.Add("empty_documents_excused", 1)
		case len(d.Data) == 0:
			r.Violation(sig+": empty document although no Fetch call to its shard failed", c, fmt.Sprintf("position %d id %s", i, d.Id))
		default:
			r.Violation(sig+": the i-th document is not the document of the i-th ID", c, fmt.Sprintf("position %d id %s: got %q want %q", i, d.Id, d.Data, want[i].body))
		}
	}
	r.Distinct("outcomes", fmt.Sprintf("partial=%v ids=%d", partial, len(docs)))
	if wantPartial || c.FetchOK != 15 {
		r.Distinct("nontrivial", sig)
	}
}

func TestVerifC16ProxyAPI(t *testing.T) {
	r := vlib.NewRun("C16")
	vrand.Quiet.Store(true)
	var rc c16pCase
	if r.LoadReplay(&rc) {
		if rc.Query != "" && rc.Size > 0 {
			c16pRun(r, rc)
		}
		r.Finish(t, "model_checking", "replay", nil, nil)
		return
	}
	pages := [][2]int64{{10, 0}, {1, 0}, {1, 1}, {2, 1}, {10, 2}, {10, 3}, {10, 4}}
	for so := 0; so < 16; so++ {
		for fo := 0; fo < 16; fo++ {
			for _, q := range []string{"q:all", "q:a", "q:b", "q:none"} {
				for _, pg := range pages {
					for _, cx := range []bool{false, true} {
						c16pRun(r, c16pCase{SearchOK: so, FetchOK: fo, Query: q, Size: pg[0], Offset: pg[1], Complex: cx})
					}
				}
			}
		}
	}
	r.Sample(c16pCase{SearchOK: 3, FetchOK: 15, Query: "q:b", Size: 10, Offset: 0})
	ev := r.Get("evaluations")
	r.Finish(t, "model_checking",
		"proxy API part of C16: the real grpcV1.Search and grpcV1.ComplexSearch over the real search.Ingestor over scripted replicas (2 shards x 2 replicas): every subset of replicas answering Search x every subset delivering Fetch x 4 queries (hits on both shards / one / the other / nowhere) x 7 pages (size, offset; including pages behind the last hit) x both RPCs; the client-visible partial flag, error code, IDs and documents judged against the property",
		map[string]any{"states": ev, "transitions": ev, "traces_validated_against_impl": ev},
		[]string{"replica choice order is fixed (the main part of the check explores it)"})
}
