//go:build verif_proxy

package proxyapi

// C06 (proxy API part) — the aggregation list of one ComplexSearch request reaches the search layer unchanged.
// The real grpcV1.ComplexSearch runs over a scripted SearchIngestor that records the search.SearchRequest it
// receives and answers with a fixed partial result. Every list of <=3 aggregation queries over an alphabet of
// 9 (functions x with/without interval x with/without group-by) is sent: the i-th aggregation the search
// layer sees must be the i-th of the request (function, field, group-by, quantiles, interval — 0 when the
// request has none), the histogram interval must be the requested one, and the response must carry one
// aggregation per requested one.

import (
	"context"
	"fmt"
	"testing"
	"time"

	"github.com/ozontech/seq-db/pkg/seqproxyapi/v1"
	"github.com/ozontech/seq-db/proxy/search"
	"github.com/ozontech/seq-db/querytracer"
	"github.com/ozontech/seq-db/seq"
	"github.com/ozontech/seq-db/zzverif/vlib"
	"google.golang.org/protobuf/types/known/timestamppb"
)

type c06Ingestor struct {
	SearchIngestor
	got *search.SearchRequest
}

func (f *c06Ingestor) Search(ctx context.Context, sr *search.SearchRequest, tr *querytracer.Tracer) (*seq.QPR, search.DocsIterator, time.Duration, error) {
	f.got = sr
	qpr := &seq.QPR{Aggs: make([]seq.AggregatableSamples, len(sr.AggQ)), Histogram: map[seq.MID]uint64{}}
	for i := range qpr.Aggs {
		qpr.Aggs[i] = seq.AggregatableSamples{SamplesByBin: map[seq.AggBin]*seq.SamplesContainer{}}
	}
	return qpr, search.EmptyDocsStream{}, 0, nil
}

type c06RL struct{}

func (c06RL) Account(string) bool { return true }

type c06pCase struct {
	Aggs []int  `json:"aggs"`
	Hist string `json:"hist,omitempty"`
}

func c06pAlphabet() []*seqproxyapi.AggQuery {
	iv := func(s string) *string { return &s }
	return []*seqproxyapi.AggQuery{
		{Func: seqproxyapi.AggFunc_AGG_FUNC_COUNT, GroupBy: "g"},
		{Func: seqproxyapi.AggFunc_AGG_FUNC_COUNT, GroupBy: "g", Interval: iv("1m")},
		{Func: seqproxyapi.AggFunc_AGG_FUNC_SUM, Field: "v"},
		{Func: seqproxyapi.AggFunc_AGG_FUNC_SUM, Field: "v", Interval: iv("30s")},
		{Func: seqproxyapi.AggFunc_AGG_FUNC_SUM, Field: "v", GroupBy: "g", Interval: iv("250ms")},
		{Func: seqproxyapi.AggFunc_AGG_FUNC_MAX, Field: "w", GroupBy: "h"},
		{Func: seqproxyapi.AggFunc_AGG_FUNC_QUANTILE, Field: "v", Quantiles: []float64{0.5, 0.99}},
		{Func: seqproxyapi.AggFunc_AGG_FUNC_QUANTILE, Field: "v", Quantiles: []float64{0.9}, Interval: iv("1h")},
		{Func: seqproxyapi.AggFunc_AGG_FUNC_UNIQUE, GroupBy: "g"},
	}
}

var c06pIntervals = map[string]seq.MID{"1m": 60_000, "30s": 30_000, "250ms": 250, "1h": 3_600_000, "": 0, "5s": 5000}

func c06pRun(r *vlib.Run, c c06pCase) {
	r.Add("evaluations", 1)
	alpha := c06pAlphabet()
	ing := &c06Ingestor{}
	g := newGrpcV1(APIConfig{SearchTimeout: time.Minute}, ing, nil, c06RL{}, nil)
	req := &seqproxyapi.ComplexSearchRequest{
		Query: &seqproxyapi.SearchQuery{Query: "*", From: timestamppb.New(time.Unix(1000, 0)), To: timestamppb.New(time.Unix(2000, 0))},
	}
	for _, i := range c.Aggs {
		req.Aggs = append(req.Aggs, alpha[i])
	}
	if c.Hist != "" {
		req.Hist = &seqproxyapi.HistQuery{Interval: c.Hist}
	}
	sig := fmt.Sprintf("proxy-api aggregation list %v hist=%q", c.Aggs, c.Hist)
	var resp *seqproxyapi.ComplexSearchResponse
	var err error
	if p := vlib.Catch(func() { resp, err = g.ComplexSearch(context.Background(), req) }); p != nil {
		r.Violation(sig+": panic", c, fmt.Sprint(p))
		return
	}
	if err != nil {
		r.Violation(sig+": valid request rejected", c, err.Error())
		return
	}
	if ing.got == nil || len(ing.got.AggQ) != len(c.Aggs) {
		r.Violation(sig+": the search layer received another number of aggregations", c, fmt.Sprintf("%+v", ing.got))
		return
	}
	for k, i := range c.Aggs {
		want, got := alpha[i], ing.got.AggQ[k]
		wiv := seq.MID(0)
		if want.Interval != nil {
			wiv = c06pIntervals[*want.Interval]
		}
		if got.Func != want.Func.MustAggFunc() || got.Field != want.Field || got.GroupBy != want.GroupBy || fmt.Sprint(got.Quantiles) != fmt.Sprint(want.Quantiles) || got.Interval != wiv {
			r.Violation(sig+": an aggregation reaches the search layer changed", c, fmt.Sprintf("position %d: requested %s, the search layer received func=%v field=%q group_by=%q quantiles=%v interval=%dms (want interval %dms)", k, want.String(), got.Func, got.Field, got.GroupBy, got.Quantiles, got.Interval, wiv))
		}
	}
	if ing.got.Interval != c06pIntervals[c.Hist] {
		r.Violation(sig+": histogram interval changed", c, fmt.Sprintf("got %d want %d", ing.got.Interval, c06pIntervals[c.Hist]))
	}
	if len(resp.Aggs) != len(c.Aggs) {
		r.Violation(sig+": the response carries another number of aggregations", c, fmt.Sprintf("%d vs %d", len(resp.Aggs), len(c.Aggs)))
	}
	r.Distinct("nontrivial", sig)
}

func TestVerifC06ProxyAPI(t *testing.T) {
	r := vlib.NewRun("C06")
	var rc c06pCase
	if r.LoadReplay(&rc) {
		if len(rc.Aggs) > 0 {
			c06pRun(r, rc)
		}
		r.Finish(t, "model_checking", "replay", nil, nil)
		return
	}
	n := len(c06pAlphabet())
	var rec func(cur []int)
	rec = func(cur []int) {
		if len(cur) > 0 {
			c06pRun(r, c06pCase{Aggs: append([]int{}, cur...)})
			c06pRun(r, c06pCase{Aggs: append([]int{}, cur...), Hist: "5s"})
		}
		if len(cur) == 3 {
			return
		}
		for i := 0; i < n; i++ {
			rec(append(cur, i))
		}
	}
	rec(nil)
	r.Sample(c06pCase{Aggs: []int{3, 2}})
	ev := r.Get("evaluations")
	r.Finish(t, "model_checking",
		"proxy API part of C06: every list of <=3 aggregation queries over 9 (count / sum / max / quantile / unique, with and without interval and group-by), with and without a histogram, through the real grpcV1.ComplexSearch over a scripted SearchIngestor: the search layer receives the aggregations position by position unchanged (interval 0 when not requested) and the response carries one aggregation per requested one",
		map[string]any{"states": ev, "transitions": ev, "traces_validated_against_impl": ev},
		[]string{"the search layer itself is judged by the main part of the check"})
}
