//go:build verif_sched

package cache

// C18 — the block cache is coherent, accounted and bounded.
// (a) explicit-state BFS over operation sequences (get / failing get / panicking get / Rotate / Cleanup /
//     CleanEmptyGenerations / ReleaseBuckets / Release / NewCache) on 1 cleaner and <=3 caches, invariant
//     evaluated in every reachable state;
// (b) exhaustive interleavings (vsched, preemption bounded / unbounded) of concurrent lookups of the
//     same and of different keys with a cleaner pass, invariants at quiescence.

import (
	"errors"
	"fmt"
	"os"
	"sort"
	"strings"
	"testing"
	"time"

	"github.com/ozontech/seq-db/zzverif/vlib"
	"github.com/ozontech/seq-db/zzverif/vsched"
)

const c18Limit = 200 // bytes; one entry costs entrySize (~70) + payload

func c18Val(c int, k uint32) int { return c*10 + int(k) }

func c18Size(k uint32) int {
	if k == 1 {
		return 8
	}
	return 40
}

type c18World struct {
	cl     *Cleaner
	caches []*Cache[int]
}

func newC18World(n int) *c18World {
	w := &c18World{cl: NewCleaner(c18Limit, nil)}
	for i := 0; i < n; i++ {
		w.caches = append(w.caches, NewCache[int](w.cl, nil))
	}
	return w
}

// apply executes one operation; returns an invariant violation description or "".
func (w *c18World) apply(op string) string {
	var c int
	var k uint32
	switch {
	case strings.HasPrefix(op, "get:"):
		fmt.Sscanf(op, "get:%d:%d", &c, &k)
		calls := 0
		v := w.caches[c].Get(k, func() (int, int) { calls++; return c18Val(c, k), c18Size(k) })
		if v != c18Val(c, k) {
			return fmt.Sprintf("get(c%d,k%d) returned %d, loader value is %d", c, k, v, c18Val(c, k))
		}
	case strings.HasPrefix(op, "geterr:"):
		fmt.Sscanf(op, "geterr:%d:%d", &c, &k)
		_, present := w.caches[c].payload[k]
		calls := 0
		_, err := w.caches[c].GetWithError(k, func() (int, int, error) { calls++; return 0, 0, errors.New("boom") })
		if !present && err == nil {
			return fmt.Sprintf("failing load of (c%d,k%d) was not reported", c, k)
		}
		if !present {
			// the failure must not poison the key: the next lookup reloads and returns the loader value
			calls2 := 0
			v := w.caches[c].Get(k, func() (int, int) { calls2++; return c18Val(c, k), c18Size(k) })
			if calls2 != 1 || v != c18Val(c, k) {
				return fmt.Sprintf("after a failed load of (c%d,k%d) the next lookup did not reload (calls=%d value=%d)", c, k, calls2, v)
			}
		}
	case strings.HasPrefix(op, "getpanic:"):
		fmt.Sscanf(op, "getpanic:%d:%d", &c, &k)
		_, present := w.caches[c].payload[k]
		// key 1 panics inside Get, key 2 inside GetWithError (the entry point of the production readers)
		p := vlib.Catch(func() {
			if k == 1 {
				w.caches[c].Get(k, func() (int, int) { panic("loader panic") })
			} else {
				w.caches[c].GetWithError(k, func() (int, int, error) { panic("loader panic") })
			}
		})
		if !present && p == nil {
			return fmt.Sprintf("panicking load of (c%d,k%d) was not propagated", c, k)
		}
		if !present {
			// the next lookup must reload; a pending entry left behind would block it forever
			calls2, v := 0, 0
			done := make(chan struct{})
			go func() {
				v = w.caches[c].Get(k, func() (int, int) { calls2++; return c18Val(c, k), c18Size(k) })
				close(done)
			}()
			select {
			case <-done:
			case <-time.After(20 * time.Second):
				return fmt.Sprintf("after a panicked load of (c%d,k%d) the next lookup of the key blocks (no answer within 20 s for an in-memory loader)", c, k)
			}
			if calls2 != 1 || v != c18Val(c, k) {
				return fmt.Sprintf("after a panicked load of (c%d,k%d) the next lookup did not reload (calls=%d value=%d)", c, k, calls2, v)
			}
		}
	case op == "rotate":
		w.cl.Rotate()
	case op == "cleanup":
		st := &CleanStat{}
		w.cl.Cleanup(st)
		if sz := w.cl.getSize(); sz > c18Limit {
			return fmt.Sprintf("after Cleanup the accounted size %d is above the limit %d", sz, c18Limit)
		}
	case op == "cleanempty":
		w.cl.CleanEmptyGenerations()
	case op == "releasebuckets":
		w.cl.ReleaseBuckets()
	case strings.HasPrefix(op, "release:"):
		fmt.Sscanf(op, "release:%d", &c)
		w.caches[c].Release()
	case op == "newcache":
		w.caches = append(w.caches, NewCache[int](w.cl, nil))
	}
	return w.invariant()
}

// invariant: accounting equals the live entries; every live cache is managed by the cleaner.
func (w *c18World) invariant() string {
	var live uint64
	for i, c := range w.caches {
		if c.released {
			continue
		}
		for k, e := range c.payload {
			if e.wg != nil {
				return fmt.Sprintf("cache %d key %d: entry still being loaded at quiescence", i, k)
			}
			live += e.size
			if e.value != c18Val(i, k) {
				return fmt.Sprintf("cache %d key %d holds value %d, loader value is %d", i, k, e.value, c18Val(i, k))
			}
		}
		managed := false
		for _, b := range w.cl.buckets {
			if b == bucket(c) {
				managed = true
			}
		}
		if !managed {
			return fmt.Sprintf("live cache %d is no longer managed by the cleaner (buckets=%d)", i, len(w.cl.buckets))
		}
	}
	if acc := w.cl.getSize(); acc != live {
		return fmt.Sprintf("accounted size %d != sum of live entries %d", acc, live)
	}
	return ""
}

func (w *c18World) canon() string {
	genRank := map[*Generation]int{}
	var gs []string
	for i, g := range w.cl.generations {
		genRank[g] = i
		gs = append(gs, fmt.Sprintf("%d/%v", g.size.Load(), g.stale))
	}
	var cs []string
	for _, c := range w.caches {
		var es []string
		for k, e := range c.payload {
			r, ok := genRank[e.gen]
			if !ok {
				r = -1
			}
			es = append(es, fmt.Sprintf("%d:%d@%d", k, e.size, r))
		}
		sort.Strings(es)
		inB := false
		for _, b := range w.cl.buckets {
			if b == bucket(c) {
				inB = true
			}
		}
		cur, ok := genRank[c.currentGeneration]
		if !ok {
			cur = -1
		}
		cs = append(cs, fmt.Sprintf("[rel=%v b=%v cur=%d %s]", c.released, inB, cur, strings.Join(es, ",")))
	}
	return strings.Join(gs, " ") + " | " + strings.Join(cs, "") + fmt.Sprintf(" last=%d nb=%d", genRank[w.cl.lastGen], len(w.cl.buckets))
}

func (w *c18World) ops() []string {
	var ops []string
	for i, c := range w.caches {
		if c.released {
			continue
		}
		for _, k := range []uint32{1, 2} {
			ops = append(ops, fmt.Sprintf("get:%d:%d", i, k), fmt.Sprintf("geterr:%d:%d", i, k), fmt.Sprintf("getpanic:%d:%d", i, k))
		}
		ops = append(ops, fmt.Sprintf("release:%d", i))
	}
	ops = append(ops, "rotate", "cleanup", "cleanempty", "releasebuckets")
	if len(w.caches) < 3 {
		ops = append(ops, "newcache")
	}
	return ops
}

type c18Case struct {
	Seq      []string `json:"seq,omitempty"`
	Scenario string   `json:"scenario,omitempty"`
	Choices  []int    `json:"choices,omitempty"`
	Many     []int    `json:"many,omitempty"` // [n1, n2] of the many-key pass
}

func c18Replay(seq []string) (*c18World, string) {
	w := newC18World(1)
	for _, op := range seq {
		if v := w.apply(op); v != "" {
			return w, v
		}
	}
	return w, ""
}

func c18BFS(r *vlib.Run, maxDepth int) {
	type node struct{ seq []string }
	seen := map[string]bool{}
	w0 := newC18World(1)
	seen[w0.canon()] = true
	frontier := []node{{nil}}
	for depth := 0; depth < maxDepth && len(frontier) > 0; depth++ {
		var next []node
		for _, n := range frontier {
			w, _ := c18Replay(n.seq)
			for _, op := range w.ops() {
				seq := append(append([]string{}, n.seq...), op)
				w2, v := c18Replay(seq)
				r.Add("evaluations", 1)
				r.Add("bfs_transitions", 1)
				if v != "" {
					r.Violation("seq "+c18SeqSig(seq)+": "+c18Norm(v), c18Case{Seq: seq}, fmt.Sprintf("sequence %v\n%s", seq, v))
					continue // do not explore beyond a broken state
				}
				key := w2.canon()
				if !seen[key] {
					seen[key] = true
					next = append(next, node{seq})
					r.Distinct("nontrivial", key)
				}
			}
			if r.Expired() {
				return
			}
		}
		r.Note("bfs depth %d: %d new states", depth+1, len(next))
		frontier = next
	}
	r.Add("bfs_states", int64(len(seen)))
}

// c18SeqSig abstracts a failing sequence to its release pattern + last op so that one defect has one signature.
func c18SeqSig(seq []string) string {
	var rel []string
	n := 1
	for _, op := range seq {
		if strings.HasPrefix(op, "release:") {
			rel = append(rel, op[len("release:"):])
		}
		if op == "newcache" {
			n++
		}
	}
	last := seq[len(seq)-1]
	if i := strings.IndexByte(last, ':'); i > 0 {
		last = last[:i]
	}
	return fmt.Sprintf("caches=%d released={%s} last=%s", n, strings.Join(rel, ","), last)
}

func c18Norm(v string) string {
	for _, d := range "0123456789" {
		v = strings.ReplaceAll(v, string(d), "N")
	}
	for strings.Contains(v, "NN") {
		v = strings.ReplaceAll(v, "NN", "N")
	}
	return v
}

// ---- (b) interleavings ----

type c18Scenario struct {
	name string
	mk   func() (*c18World, []func(), func() string)
}

func c18Scenarios() []c18Scenario {
	loader := func(c int, k uint32, calls *int) func() (int, int) {
		return func() (int, int) {
			*calls++
			vsched.Yield("loader") // the load takes time: others may run in the middle
			return c18Val(c, k), c18Size(k)
		}
	}
	cleanerPass := func(w *c18World) func() {
		return func() {
			st := &CleanStat{}
			w.cl.Rotate()
			w.cl.Cleanup(st)
			w.cl.CleanEmptyGenerations()
			w.cl.ReleaseBuckets()
		}
	}
	final := func(w *c18World) string {
		if v := w.invariant(); v != "" {
			return v
		}
		// a cleaning pass without concurrent lookups brings the accounted size under the limit
		st := &CleanStat{}
		w.cl.Rotate()
		w.cl.Cleanup(st)
		if sz := w.cl.getSize(); sz > c18Limit {
			return fmt.Sprintf("after a quiescent Cleanup the accounted size %d is above the limit %d", sz, c18Limit)
		}
		return w.invariant()
	}
	// prefill builds a world where the cleaner has something to evict
	prefill := func(n int) *c18World {
		w := newC18World(n)
		for i := 0; i < n; i++ {
			w.caches[i].Get(2, func() (int, int) { return c18Val(i, 2), c18Size(2) })
		}
		w.cl.Rotate()
		return w
	}
	var res []c18Scenario
	res = append(res, c18Scenario{"same-key x2 + cleaner", func() (*c18World, []func(), func() string) {
		w := prefill(2)
		var v1, v2, calls int
		return w, []func(){
			func() { v1 = w.caches[0].Get(1, loader(0, 1, &calls)) },
			func() { v2 = w.caches[0].Get(1, loader(0, 1, &calls)) },
			cleanerPass(w),
		}, func() string {
			if v1 != c18Val(0, 1) || v2 != c18Val(0, 1) {
				return fmt.Sprintf("concurrent lookups of one key returned %d and %d, loader value %d", v1, v2, c18Val(0, 1))
			}
			return final(w)
		}
	}})
	res = append(res, c18Scenario{"same-key + failing + cleaner", func() (*c18World, []func(), func() string) {
		w := prefill(2)
		var v1, calls int
		var err2 error
		var v2 int
		return w, []func(){
			func() { v1 = w.caches[0].Get(1, loader(0, 1, &calls)) },
			func() {
				v2, err2 = w.caches[0].GetWithError(1, func() (int, int, error) {
					vsched.Yield("loader")
					return 0, 0, errors.New("boom")
				})
			},
			cleanerPass(w),
		}, func() string {
			if v1 != c18Val(0, 1) {
				return fmt.Sprintf("lookup returned %d next to a failing load, loader value %d", v1, c18Val(0, 1))
			}
			if err2 == nil && v2 != c18Val(0, 1) {
				return fmt.Sprintf("failing caller got value %d without error", v2)
			}
			return final(w)
		}
	}})
	res = append(res, c18Scenario{"same-key + panicking + other key", func() (*c18World, []func(), func() string) {
		w := prefill(1)
		var v1, v3, calls, calls3 int
		return w, []func(){
			func() { v1 = w.caches[0].Get(1, loader(0, 1, &calls)) },
			func() {
				vlib.Catch(func() {
					w.caches[0].Get(1, func() (int, int) { vsched.Yield("loader"); panic("loader panic") })
				})
			},
			func() { v3 = w.caches[0].Get(2, loader(0, 2, &calls3)) },
		}, func() string {
			if v1 != c18Val(0, 1) || v3 != c18Val(0, 2) {
				return fmt.Sprintf("lookups returned %d,%d next to a panicking load, loader values %d,%d", v1, v3, c18Val(0, 1), c18Val(0, 2))
			}
			return final(w)
		}
	}})
	res = append(res, c18Scenario{"two caches + release + cleaner", func() (*c18World, []func(), func() string) {
		w := prefill(3)
		var v1, calls int
		return w, []func(){
			func() { v1 = w.caches[0].Get(1, loader(0, 1, &calls)) },
			func() { w.caches[1].Release() },
			cleanerPass(w),
		}, func() string {
			if v1 != c18Val(0, 1) {
				return fmt.Sprintf("lookup returned %d, loader value %d", v1, c18Val(0, 1))
			}
			return final(w)
		}
	}})
	res = append(res, c18Scenario{"in-flight load + release of the cache sharing its generation + cleaner", func() (*c18World, []func(), func() string) {
		w := prefill(2) // both caches hold key 2 in the old generation; a fresh generation is current
		w.caches[1].Get(1, func() (int, int) { return c18Val(1, 1), c18Size(1) }) // gives the current generation a size
		var v1, calls int
		return w, []func(){
			func() { v1 = w.caches[0].Get(1, loader(0, 1, &calls)) },
			func() { w.caches[1].Release() },
			cleanerPass(w),
		}, func() string {
			if v1 != c18Val(0, 1) {
				return fmt.Sprintf("lookup returned %d, loader value %d", v1, c18Val(0, 1))
			}
			return final(w)
		}
	}})
	// A cache is created on the cleaner while its garbage collection pass (which has a released cache to drop)
	// is running: the new cache is live and must stay under the cleaner's management.
	res = append(res, c18Scenario{"new cache created during the cleaner pass that drops a released one", func() (*c18World, []func(), func() string) {
		w := prefill(2)
		w.caches[1].Release()
		var v1, calls int
		return w, []func(){
			func() {
				nc := NewCache[int](w.cl, nil)
				w.caches = append(w.caches, nc) // index 2
				v1 = nc.Get(1, loader(2, 1, &calls))
			},
			cleanerPass(w),
		}, func() string {
			if v1 != c18Val(2, 1) {
				return fmt.Sprintf("lookup returned %d, loader value %d", v1, c18Val(2, 1))
			}
			return final(w)
		}
	}})
	// An entry is evicted while its loader is still running (the current generation alone exceeds the
	// limit, so one cleaner pass rotates and marks it stale), a second caller of the same key comes
	// after the eviction and loads its own entry, then the first loader returns / fails / panics.
	for _, kind := range []string{"ok", "failing", "panicking"} {
		kind := kind
		res = append(res, c18Scenario{"evicted in flight (" + kind + " loader) + second lookup + cleaner", func() (*c18World, []func(), func() string) {
			w := newC18World(2)
			w.caches[1].Get(2, func() (int, int) { return c18Val(1, 2), c18Limit + 20 })
			var v1, v2, calls1, calls2 int
			var err1 error
			first := func() { v1 = w.caches[0].Get(1, loader(0, 1, &calls1)) }
			switch kind {
			case "failing":
				first = func() {
					v1, err1 = w.caches[0].GetWithError(1, func() (int, int, error) {
						vsched.Yield("loader")
						return 0, 0, errors.New("boom")
					})
				}
			case "panicking":
				first = func() {
					err1 = errors.New("panicked")
					vlib.Catch(func() {
						v1 = w.caches[0].Get(1, func() (int, int) { vsched.Yield("loader"); panic("loader panic") })
						err1 = nil
					})
				}
			}
			return w, []func(){
				first,
				func() { v2 = w.caches[0].Get(1, loader(0, 1, &calls2)) },
				cleanerPass(w),
			}, func() string {
				if err1 == nil && v1 != c18Val(0, 1) {
					return fmt.Sprintf("first lookup returned %d without error, loader value %d", v1, c18Val(0, 1))
				}
				if v2 != c18Val(0, 1) {
					return fmt.Sprintf("second lookup returned %d, loader value %d", v2, c18Val(0, 1))
				}
				return final(w)
			}
		}})
	}
	// Two callers are parked on a key whose loader fails or panics: both are woken by the failure, exactly the
	// entries that are reachable through the cache may stay accounted, and both get the loader's value.
	for _, kind := range []string{"failing", "panicking"} {
		kind := kind
		res = append(res, c18Scenario{"two waiters of a " + kind + " loader", func() (*c18World, []func(), func() string) {
			w := prefill(1)
			var v2, v3, calls2, calls3 int
			first := func() {
				w.caches[0].GetWithError(1, func() (int, int, error) {
					vsched.Yield("loader")
					return 0, 0, errors.New("boom")
				})
			}
			if kind == "panicking" {
				first = func() {
					vlib.Catch(func() {
						w.caches[0].Get(1, func() (int, int) { vsched.Yield("loader"); panic("loader panic") })
					})
				}
			}
			return w, []func(){
				first,
				func() { v2 = w.caches[0].Get(1, loader(0, 1, &calls2)) },
				func() { v3 = w.caches[0].Get(1, loader(0, 1, &calls3)) },
			}, func() string {
				if v2 != c18Val(0, 1) || v3 != c18Val(0, 1) {
					return fmt.Sprintf("lookups next to a %s load returned %d and %d, loader value %d", kind, v2, v3, c18Val(0, 1))
				}
				return final(w)
			}
		}})
	}
	return res
}

func c18Explore(r *vlib.Run, sc c18Scenario, bound, maxExecs int) {
	var world *c18World
	var finalCheck func() string
	st := vsched.Explore(bound, vsched.Options{}, maxExecs, func() []func() {
		w, bodies, f := sc.mk()
		world, finalCheck = w, f
		return bodies
	}, func(x *vsched.Exec) bool {
		r.Add("evaluations", 1)
		r.Add("schedules", 1)
		c := c18Case{Scenario: sc.name, Choices: append([]int{}, x.Choices...)}
		switch {
		case x.Diverged != "":
			panic("harness error: " + x.Diverged)
		case x.Deadlock:
			r.Violation("interleaving "+sc.name+": deadlock", c, fmt.Sprintf("choices %v", x.Choices))
		case x.Livelock:
			r.Violation("interleaving "+sc.name+": livelock", c, fmt.Sprintf("choices %v", x.Choices))
		case len(x.Panics()) > 0:
			r.Violation("interleaving "+sc.name+": panic "+c18Norm(strings.SplitN(x.Panics()[0], "\n", 2)[0]), c, strings.Join(x.Panics(), "\n"))
		default:
			if v := finalCheck(); v != "" {
				r.Violation("interleaving "+sc.name+": "+c18Norm(v), c, fmt.Sprintf("choices %v\n%s", x.Choices, v))
			}
			r.Distinct("outcomes", sc.name+"|"+world.canon())
		}
		return !r.Expired()
	})
	r.Note("scenario %q: bound=%d schedules=%d max_points=%d capped=%v", sc.name, bound, st.Execs, st.MaxPoints, st.Capped)
	if st.Capped {
		r.Cap(fmt.Sprintf("scenario %q stopped at %d schedules", sc.name, st.Execs))
	}
	r.Distinct("nontrivial", "scenario|"+sc.name)
}

// c18ManyKeys: caches with hundreds of entries (the map of a cache is re-created when a cleaning pass leaves a
// small fraction of a big map). n1 entries are loaded into one generation, n2 into the next, the limit is chosen
// so that one pass evicts exactly the first generation; afterwards the survivors are live, hold their values, are
// served without another load, and the accounted size is their sum.
func c18ManyKeys(r *vlib.Run, only []int) {
	probe := NewCleaner(1<<30, nil)
	pc := NewCache[int](probe, nil)
	pc.Get(7, func() (int, int) { return 7, 8 })
	per := probe.getSize()
	for _, n1 := range []int{20, 150, 199, 200, 201, 250, 400} {
		for _, n2 := range []int{1, 10, 19, 20, 21, 22, 40, 60} {
			if only != nil && (only[0] != n1 || only[1] != n2) {
				continue
			}
			r.Add("evaluations", 1)
			r.Add("many_key_cases", 1)
			sig := fmt.Sprintf("many keys: %d entries in the evicted generation, %d survivors", n1, n2)
			cl := NewCleaner(per*uint64(n1+n2-1), nil)
			c := NewCache[int](cl, nil)
			for k := 1; k <= n1; k++ {
				k := k
				c.Get(uint32(k), func() (int, int) { return 1000 + k, 8 })
			}
			cl.Rotate()
			for k := n1 + 1; k <= n1+n2; k++ {
				k := k
				c.Get(uint32(k), func() (int, int) { return 1000 + k, 8 })
			}
			cl.Rotate()
			cl.Cleanup(&CleanStat{})
			if sz := cl.getSize(); sz > cl.SizeLimit() {
				r.Violation(sig+": the pass leaves the accounted size over the limit", c18Case{Many: []int{n1, n2}}, fmt.Sprintf("%d > %d", sz, cl.SizeLimit()))
				continue
			}
			var live uint64
			for _, e := range c.payload {
				live += e.size
			}
			if acc := cl.getSize(); acc != live {
				r.Violation(sig+": accounted size != sum of live entries", c18Case{Many: []int{n1, n2}}, fmt.Sprintf("accounted %d, live %d (%d entries in the map)", acc, live, len(c.payload)))
				continue
			}
			reloads := 0
			for k := n1 + 1; k <= n1+n2; k++ {
				k := k
				if _, ok := c.payload[uint32(k)]; !ok {
					continue // evicted by the pass: allowed (the pass may take more than the first generation)
				}
				if v := c.Get(uint32(k), func() (int, int) { reloads++; return -1, 8 }); v != 1000+k {
					r.Violation(sig+": a surviving entry holds another value", c18Case{Many: []int{n1, n2}}, fmt.Sprintf("key %d: %d", k, v))
				}
			}
			if reloads > 0 {
				r.Violation(sig+": a live entry was loaded again", c18Case{Many: []int{n1, n2}}, fmt.Sprint(reloads))
			}
			r.Distinct("nontrivial", sig)
		}
	}
}

func TestVerifC18(t *testing.T) {
	r := vlib.NewRun("C18")
	var rc c18Case
	if r.LoadReplay(&rc) {
		if len(rc.Many) == 2 {
			c18ManyKeys(r, rc.Many)
		} else if rc.Seq != nil {
			_, v := c18Replay(rc.Seq)
			t.Logf("replay %v -> %q", rc.Seq, v)
			if v != "" {
				r.Violation("seq "+c18SeqSig(rc.Seq)+": "+c18Norm(v), rc, v)
			}
		} else {
			for _, sc := range c18Scenarios() {
				if sc.name != rc.Scenario {
					continue
				}
				w, bodies, f := sc.mk()
				x := vsched.Run(rc.Choices, vsched.Options{}, bodies...)
				v := f()
				t.Logf("replay %s: deadlock=%v panics=%v final=%q state=%s", sc.name, x.Deadlock, x.Panics(), v, w.canon())
				if x.Deadlock || len(x.Panics()) > 0 || v != "" {
					r.Violation("interleaving "+sc.name+": "+c18Norm(v), rc, v)
				}
			}
		}
		r.Finish(t, "model_checking", "replay", nil, nil)
		return
	}
	depth, bound := 5, 3
	if r.Thorough() {
		depth, bound = 7, -1
	}
	if s := os.Getenv("VERIF_C18_DEPTH"); s != "" {
		fmt.Sscanf(s, "%d", &depth)
	}
	c18BFS(r, depth)
	c18ManyKeys(r, nil)
	r.Sample(c18Case{Seq: []string{"newcache", "get:0:2", "get:1:2", "rotate", "release:0", "releasebuckets", "cleanup"}})
	for _, sc := range c18Scenarios() {
		c18Explore(r, sc, bound, 3_000_000)
		r.Sample(c18Case{Scenario: sc.name, Choices: []int{0, 1, 0, 0, 2}})
	}
	ev := r.Get("evaluations")
	r.Finish(t, "model_checking",
		fmt.Sprintf("(a0) 56 many-key cases: n1 in {20..400} entries in one generation, n2 in {1..60} in the next, one pass evicts the first: survivors live, valued, not reloaded, accounted = sum; (a) explicit-state BFS to depth %d from one cleaner (limit %d B) and one cache: operations get / failing get / panicking get (keys 1,2) / Rotate / Cleanup / CleanEmptyGenerations / ReleaseBuckets / Release(c) / NewCache (<=3 caches); successor = replay of the path on a fresh instance + 1 op; canonical state = generation sizes+stale flags, per cache (released, managed, current generation rank, key->size@generation rank); invariants in every state: returned value = loader value, failed/panicked load (panic inside Get for key 1, inside GetWithError for key 2) reported and next lookup reloads without blocking, accounted size = sum of live entries, every live cache managed, size <= limit right after Cleanup. (b) all interleavings with <=%d preemptions (-1 = unbounded) of 11 three-thread scenarios (same key twice, failing, panicking, two callers parked on a failing / panicking load, release, release of the cache sharing the generation of an in-flight load, and an entry evicted while its ok / failing / panicking loader runs followed by a second lookup of the key) with a cleaner pass; loaders contain a scheduling point; invariants at quiescence. distinct_nontrivial = distinct canonical states + scenarios", depth, c18Limit, bound),
		map[string]any{
			"states":                        r.Get("bfs_states") + int64(r.DistinctCount("outcomes")),
			"transitions":                   ev,
			"traces_validated_against_impl": ev,
			"schedules":                     r.Get("schedules"),
			"bfs_transitions":               r.Get("bfs_transitions"),
		},
		[]string{"no lookup on a cache after its Release (contract)", "scheduling points are the lock / waitgroup operations of the sync shim plus one point inside every loader; atomics are not scheduling points"})
}

// TestVerifC18Race is the free-running add-on pass: the interleaving scenarios' bodies run as plain
// goroutines (no scheduler; the shim then spins on real mutexes) in a binary built with -race. It is
// sampling and declared as such; a data race report or an oracle failure is turned into a violation by
// the driver.
func TestVerifC18Race(t *testing.T) {
	rounds := 300
	if os.Getenv("VERIF_TIER") == "thorough" {
		rounds = 3000
	}
	total := 0
	for _, sc := range c18Scenarios() {
		for i := 0; i < rounds; i++ {
			_, bodies, final := sc.mk()
			done := make(chan string, len(bodies))
			for _, b := range bodies {
				b := b
				go func() {
					msg := ""
					defer func() {
						if p := recover(); p != nil {
							msg = fmt.Sprintf("panic: %v", p)
						}
						done <- msg
					}()
					b()
				}()
			}
			for range bodies {
				if m := <-done; m != "" {
					t.Errorf("FREE-RUN-FAILURE scenario=%q round=%d: %s", sc.name, i, m)
				}
			}
			if v := final(); v != "" {
				t.Errorf("FREE-RUN-FAILURE scenario=%q round=%d: %s", sc.name, i, v)
			}
			total++
		}
	}
	fmt.Printf("RACE-PASS rounds_per_scenario=%d executions=%d\n", rounds, total)
}
