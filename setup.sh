#!/bin/bash
# Offline setup after a fresh restore: build the rewriter and warm the Go build cache by
# building every registered check's test binary once.
set -u
cd "$(dirname "$0")"
export GOFLAGS=-mod=mod GOPROXY=off
mkdir -p build evidence
(cd tools && GOTOOLCHAIN=local go build -o ../build/vrewrite ./vrewrite) || exit 1
rc=0
for id in $(python3 -c "import json;print(' '.join(c['property_id'] for c in json.load(open('MANIFEST.json'))['checks']))"); do
  ./check "$id" --build-only >/dev/null 2>build/setup-$id.log || { echo "setup: build of $id failed"; cat build/setup-$id.log; rc=1; }
done
exit $rc
